package netsim

// C42: vote compression is lossless and stays in sync.
//
// Two real wsPeers A and B (real readLoop/writeLoop/wsPeerMsgCodec, real stateless+stateful vpack)
// joined by a pair of simulated connections. The scheduler sends votes and other traffic from either
// side through the real broadcast preparation (stateless vpack / zstd) and the real send queue,
// chooses when each in-flight frame is delivered, corrupts frames, resets the connection and feeds
// uncompressible votes to reach the codec's abort / fallback paths.

import (
	"bytes"
	"fmt"
	"runtime/debug"
	"testing/synctest"

	"github.com/algorand/go-algorand/network"
	"github.com/algorand/go-algorand/network/vpack"
	"github.com/algorand/go-algorand/protocol"

	"verif/sim/kernel"
)

type codecCfg struct {
	Steps       int
	En          [2]bool // EnableVoteCompression of A, B
	Tbl         [2]uint // configured StatefulVoteCompressionTableSize of A, B
	Senders     int
	Dilution    uint64
	Props       int
	StartRound  uint64
	WCorrupt    int
	WReset      int
	WUncomp     int
	WReplay     int
	DeliverBias int // out of 8: how many op codes mean "deliver"
}

type appMsg struct {
	id      int
	tag     protocol.Tag
	data    []byte
	vote    bool
	nonVote bool // AV payload that is not a vote at all: outside the property, judged by the reference decoder only
}

type flight struct {
	id      int
	mtype   int
	data    []byte
	enc     []byte
	orig    *appMsg
	control bool // abort message produced by the real code
}

type side struct {
	name     string
	conn     *simConn
	peer     *network.VerifPeer
	rb       chan network.IncomingMessage
	closed   bool
	reason   string
	enabled  bool // harness expectation of statefulVoteEnabled
	tblSize  uint
	stless   bool // incoming AV goes through the stateless decoder
	twinEnc  *vpack.StatefulEncoder
	twinDec  *vpack.StatefulDecoder
	model    *modelDecoder
	seenSnd  map[[32]byte]bool
	seenProp map[[32]byte]int
	propSeq  int
	tainted  bool // the incoming link carried a well-formed frame the sender's encoder did not produce
	forged   bool
	last     *voteFields
	lastRaw  []byte
}

type codecSim struct {
	*base
	cfg        codecCfg
	sd         [2]*side
	links      [2][]*flight // links[i]: frames written by side i, FIFO
	nextID     int
	curRound   uint64
	epoch      int
	vpFrames   int64
	refHits    int64
	compares   int64
	nonce      uint64
	negotiated bool
	curVote    *voteFields
}

func newCodecSim(b *base) *codecSim { return &codecSim{base: b} }

var tableChoices = []uint{16, 16, 16, 32, 32, 64, 20, 128, 256, 1024, 5000, 16, 0, 8}

func (s *codecSim) drawConfig() {
	tp := s.tape
	c := &s.cfg
	thorough := s.tier == "thorough"
	c.Steps = tp.Range("cfg.steps", 60, 500)
	if thorough {
		c.Steps = tp.Range("cfg.steps2", 200, 3000)
	}
	// compression on at both ends in 7 of 8 runs; otherwise one or both ends have it off
	switch tp.Choose("cfg.enable", 8) {
	case 7:
		c.En = [2]bool{tp.Choose("cfg.enA", 2) == 0, tp.Choose("cfg.enB", 2) == 0}
	default:
		c.En = [2]bool{true, true}
	}
	c.Tbl[0] = tableChoices[tp.Choose("cfg.tblA", len(tableChoices))]
	if tp.Chance("cfg.tbldiff", 1, 3) {
		c.Tbl[1] = tableChoices[tp.Choose("cfg.tblB", len(tableChoices))]
	} else {
		c.Tbl[1] = c.Tbl[0]
	}
	c.Senders = tp.Range("cfg.senders", 1, 48)
	c.Dilution = []uint64{1, 2, 5, 1000}[tp.Choose("cfg.dilution", 4)]
	c.Props = tp.Range("cfg.props", 1, 10)
	starts := []uint64{1, 1, 100, 126, 254, 65534, 1<<32 - 2, 1<<64 - 3}
	c.StartRound = starts[tp.Choose("cfg.round", len(starts))]
	pick := func(name string, lo, hi int) int {
		if tp.Chance("cfg.on."+name, 1, 2) {
			return tp.Range("cfg.w."+name, lo, hi)
		}
		return 0
	}
	c.WCorrupt = pick("corrupt", 3, 40)
	c.WReset = pick("reset", 2, 15)
	c.WUncomp = pick("uncomp", 2, 15)
	c.WReplay = pick("replay", 2, 15)
	c.DeliverBias = tp.Range("cfg.deliver", 2, 5)
}

// safely runs f and converts a panic into a value + stack.
func safely(f func()) (p any, stack string) {
	defer func() {
		if r := recover(); r != nil {
			p = r
			stack = string(debug.Stack())
		}
	}()
	f()
	return nil, ""
}

// connect builds (or rebuilds) both peers with fresh codec state.
func (s *codecSim) connect() {
	s.epoch++
	for i := 0; i < 2; i++ {
		sd := &side{name: fmt.Sprintf("%c%d", 'A'+i, s.epoch)}
		sd.conn = newSimConn(sd.name)
		sd.conn.onWrite = func(data []byte) []byte {
			// runs in the peer's own write loop right after it produced the frame
			if sd.peer == nil || len(data) <= 3 || string(data[:2]) != string(protocol.VotePackedTag) {
				return nil
			}
			return sd.peer.EncState()
		}
		sd.rb = make(chan network.IncomingMessage, 64)
		s.sd[i] = sd
	}
	for i := 0; i < 2; i++ {
		sd := s.sd[i]
		o := 1 - i
		sd.peer = network.VerifMakePeer(network.VerifPeerConfig{
			Conn: sd.conn, ReadBuffer: sd.rb, Log: s.lg, Addr: sd.name,
			EnableVoteCompression: s.cfg.En[i], VoteTableSize: s.cfg.Tbl[i],
			RemoteEnableVoteCompression: s.cfg.En[o], RemoteVoteTableSize: s.cfg.Tbl[o],
			OnClose: func(reason string) { sd.conn.mu.Lock(); sd.reason = reason; sd.conn.mu.Unlock() },
		})
		synctest.Wait()
		cs := sd.peer.CodecState(false)
		sd.enabled = cs.StatefulEnabled
		sd.tblSize = cs.TableSize
		sd.stless = cs.StatelessDecode
	}
	s.links = [2][]*flight{}
	if s.sd[0].enabled != s.sd[1].enabled || (s.sd[0].enabled && s.sd[0].tblSize != s.sd[1].tblSize) {
		s.violate("negotiation-mismatch", "", fmt.Sprintf("ends negotiated different stateful settings: A enabled=%v size=%d, B enabled=%v size=%d (cfg %+v)",
			s.sd[0].enabled, s.sd[0].tblSize, s.sd[1].enabled, s.sd[1].tblSize, s.cfg))
	}
	s.negotiated = s.sd[0].enabled && s.sd[1].enabled
	s.log.Add("connect epoch=%d stateful=%v table=%d statelessA=%v statelessB=%v", s.epoch, s.sd[0].enabled, s.sd[0].tblSize, s.sd[0].stless, s.sd[1].stless)
}

func (s *codecSim) disconnect() {
	for i := 0; i < 2; i++ {
		if s.sd[i] != nil && s.sd[i].peer != nil {
			s.sd[i].peer.Close()
		}
	}
	synctest.Wait()
}

func (s *codecSim) run() {
	s.drawConfig()
	s.log.Add("config %+v", s.cfg)
	s.curRound = s.cfg.StartRound
	s.connect()
	for s.step = 0; s.step < s.cfg.Steps; s.step++ {
		if s.viol != nil || s.harness != "" {
			break
		}
		s.oneStep()
	}
	if s.viol == nil && s.harness == "" {
		s.flush()
	}
	s.disconnect()
}

// flush delivers everything still in flight (no faults) and checks that fallback reached both ends.
func (s *codecSim) flush() {
	for guard := 0; guard < 10000 && (len(s.links[0]) > 0 || len(s.links[1]) > 0); guard++ {
		for i := 0; i < 2; i++ {
			if len(s.links[i]) > 0 && s.viol == nil && s.harness == "" {
				s.deliverHead(i, "", 0)
			}
		}
		if s.viol != nil || s.harness != "" {
			return
		}
	}
	s.checkFallback("end")
}

func (s *codecSim) checkFallback(when string) {
	a, b := s.sd[0], s.sd[1]
	if a.closed || b.closed {
		return
	}
	ca, cb := a.peer.CodecState(false), b.peer.CodecState(false)
	s.log.Add("quiescent %s statefulA=%v statefulB=%v", when, ca.StatefulEnabled, cb.StatefulEnabled)
	if ca.StatefulEnabled != cb.StatefulEnabled {
		s.violate("fallback-not-propagated", "", fmt.Sprintf("with nothing in flight one end still uses stateful compression and the other does not: A=%v B=%v", ca.StatefulEnabled, cb.StatefulEnabled))
	}
}

const (
	cfNone = iota
	cfCorrupt
	cfReset
	cfUncomp
	cfReplay
)

func (s *codecSim) oneStep() {
	d := drawStep(s.tape, 9)
	defer d.finish()
	c := &s.cfg
	pending := len(s.links[0]) + len(s.links[1])
	fw := []int{1000, 0, c.WReset, c.WUncomp, 0}
	if pending > 0 {
		fw[cfCorrupt] = c.WCorrupt
		fw[cfReplay] = c.WReplay
	}
	f := pickW(d.raw[0], fw)
	if f != cfNone {
		d.rawv(0)
	}
	switch f {
	case cfCorrupt, cfReplay:
		dir := d.mod(1, 2)
		if len(s.links[dir]) == 0 {
			dir = 1 - dir
		}
		kind := "replay"
		if f == cfCorrupt {
			kind = []string{"flip", "hdr1", "hdr0", "truncate", "extend", "random", "ref", "flip2"}[d.mod(2, 8)]
		}
		s.deliverHead(dir, kind, uint64(d.rawv(3))<<16|uint64(d.rawv(4)))
		return
	case cfReset:
		s.log.Add("step %d RESET (in flight %d/%d dropped)", s.step, len(s.links[0]), len(s.links[1]))
		s.stat("fault_reset", 1)
		s.disconnect()
		s.connect()
		return
	case cfUncomp:
		dir := d.mod(1, 2)
		s.sendUncompressible(dir, d.mod(2, 3), uint64(d.rawv(3)))
		return
	}
	if s.negotiated && pending == 0 && !s.sd[0].enabled && !s.sd[1].enabled && d.raw[1]%8 == 3 {
		// both ends fell back to stateless votes: model the eventual reconnection so that the
		// stateful codec is exercised again in this run
		d.rawv(1)
		s.stat("reconnect_after_fallback", 1)
		s.log.Add("step %d reconnect after fallback", s.step)
		s.disconnect()
		s.connect()
		return
	}
	op := d.mod(1, 8)
	dir := d.mod(2, 2)
	if pending > 40 {
		op = 0
	}
	switch {
	case op < c.DeliverBias && pending > 0:
		if len(s.links[dir]) == 0 {
			dir = 1 - dir
		}
		s.deliverHead(dir, "", 0)
	case op == 7:
		s.sendOther(dir, d.mod(3, 6), d.rawv(4))
	default:
		s.sendVote(dir, d)
	}
}

// ---------------------------------------------------------------- sending

func (s *codecSim) makeVote(dir int, d *stepDraw) (*voteFields, string) {
	c := &s.cfg
	sd := s.sd[dir]
	variant := d.mod(8, 32)
	if variant == 30 && sd.last != nil {
		cp := *sd.last
		return &cp, "dup"
	}
	mv := d.rawv(4)
	switch m := mv % 16; {
	case m <= 9:
	case m <= 12:
		if s.curRound < ^uint64(0) {
			s.curRound++
		}
	case m == 13:
		if s.curRound > 1 {
			s.curRound--
		}
	case m == 14:
		if s.curRound < ^uint64(0)-8 {
			s.curRound += uint64(2 + mv/16%5)
		}
	default:
		edges := []uint64{1, 127, 128, 255, 256, 65535, 65536, 1<<32 - 1, 1 << 32, 1<<64 - 2, 1<<64 - 1, 1000}
		s.curRound = edges[mv/16%len(edges)]
	}
	var f voteFields
	snd := uint64(d.mod(3, c.Senders))
	f.Rnd = s.curRound
	pv := d.rawv(5)
	switch m := pv % 8; {
	case m <= 5:
	case m == 6:
		f.Per = uint64(1 + pv/8%3)
	default:
		f.Per = []uint64{300, 70000, 1 << 33}[pv/8%3]
	}
	f.Step = []uint64{0, 1, 2, 3, 4, 255, 254, 1000}[d.mod(6, 8)]
	pi := d.mod(7, c.Props+1)
	if pi > 0 || f.Step < 3 {
		if pi == 0 {
			pi = 1
		}
		expand(f.Dig[:], "dig", f.Rnd, uint64(pi))
		expand(f.EncDig[:], "encdig", f.Rnd, uint64(pi))
		expand(f.Oprop[:], "oprop", f.Rnd, uint64(pi))
		if pi%3 == 0 {
			f.Oper = uint64(pi)
		}
	}
	expand(f.Snd[:], "snd", snd)
	expand(f.P[:], "p", snd, f.Rnd)
	expand(f.P1s[:], "p1s", snd, f.Rnd)
	expand(f.P2[:], "p2", snd, f.Rnd/c.Dilution)
	expand(f.P2s[:], "p2s", snd, f.Rnd/c.Dilution)
	expand(f.Pf[:], "pf", snd, f.Rnd, f.Per, f.Step)
	s.nonce++
	expand(f.S[:], "s", snd, f.Rnd, f.Per, f.Step, uint64(pi), s.nonce)
	tag := "v"
	switch variant {
	case 28:
		f.P, f.P1s = [32]byte{}, [64]byte{}
		tag = "zero-pk"
	case 29, 26:
		// partial proposal value: any subset of its four fields empty (omitted on the wire)
		zm := 1 + pv/64%15
		if zm&1 != 0 {
			f.Dig = zero32
		}
		if zm&2 != 0 {
			f.EncDig = zero32
		}
		if zm&4 != 0 {
			f.Oper = 0
		} else if f.Oper == 0 {
			f.Oper = uint64(1 + pv/1024)
		}
		if zm&8 != 0 {
			f.Oprop = zero32
		}
		tag = fmt.Sprintf("partial-prop(%x)", zm)
	case 27:
		f.P2, f.P2s = [32]byte{}, [64]byte{}
		tag = "zero-pk2"
	}
	return &f, tag
}

func (s *codecSim) sendVote(dir int, d *stepDraw) {
	f, kind := s.makeVote(dir, d)
	raw := encodeVote(f)
	s.sd[dir].last = f
	s.curVote = f
	defer func() { s.curVote = nil }()
	s.sendApp(dir, protocol.AgreementVoteTag, raw, true, fmt.Sprintf("%s r%d p%d s%d snd%x", kind, f.Rnd, f.Per, f.Step, f.Snd[:3]))
}

// sendUncompressible sends AV payloads the stateless layer cannot represent: the codec must fall
// back (abort stateful compression on both ends, keep delivering the bytes unchanged).
func (s *codecSim) sendUncompressible(dir, kind int, r uint64) {
	s.stat("fault_uncompressible", 1)
	var raw []byte
	var what string
	switch kind {
	case 0: // canonical encoding of a round-0 vote: no "rnd" key
		var f voteFields
		expand(f.Snd[:], "snd", r%7)
		expand(f.P[:], "p", r)
		expand(f.P1s[:], "p1s", r)
		expand(f.P2[:], "p2", r)
		expand(f.P2s[:], "p2s", r)
		expand(f.Pf[:], "pf", r)
		expand(f.S[:], "s", r)
		f.Step = 1
		raw = encodeVote(&f)
		what = "round0-vote"
	case 1: // not a vote at all
		raw = make([]byte, 20+int(r%400))
		fillBytes(raw, r)
		raw[0] = 0x83
		what = "garbage"
	default: // a valid vote followed by trailing bytes
		var f voteFields
		expand(f.Snd[:], "snd", r%7)
		expand(f.P[:], "p", r)
		expand(f.P1s[:], "p1s", r)
		expand(f.P2[:], "p2", r)
		expand(f.P2s[:], "p2s", r)
		expand(f.Pf[:], "pf", r)
		expand(f.S[:], "s", r)
		f.Rnd = 5
		raw = append(encodeVote(&f), 0xc0)
		what = "vote+trailing"
	}
	s.sendApp(dir, protocol.AgreementVoteTag, raw, true, "uncompressible "+what)
}

func (s *codecSim) sendOther(dir, which, r int) {
	tags := []protocol.Tag{protocol.TxnTag, protocol.ProposalPayloadTag, protocol.VoteBundleTag, protocol.NetPrioResponseTag, protocol.NetIDVerificationTag, protocol.UniEnsBlockReqTag}
	tag := tags[which]
	n := 1 + r%min(300, int(tag.MaxMessageSize()))
	data := make([]byte, n)
	fillBytes(data, uint64(r)*7919+uint64(s.step))
	if r%5 == 0 { // compressible payload
		for i := range data {
			data[i] = byte(i % 3)
		}
	}
	s.sendApp(dir, tag, data, false, "other")
}

func isAbort(data []byte) bool {
	return len(data) == 3 && string(data[:2]) == string(protocol.VotePackedTag) && data[2] == network.VerifAbortByte
}

// sendApp pushes one application message through the real send path of side dir.
func (s *codecSim) sendApp(dir int, tag protocol.Tag, data []byte, vote bool, desc string) {
	sd := s.sd[dir]
	s.nextID++
	m := &appMsg{id: s.nextID, tag: tag, data: data, vote: vote, nonVote: desc == "uncompressible garbage"}
	// screen the encoders in this goroutine so that a panic is reported with its input
	if vote && s.cfg.En[dir] {
		var sl []byte
		var serr error
		if p, st := safely(func() { sl, serr = vpack.NewStatelessEncoder().CompressVote(nil, data) }); p != nil {
			s.violate("panic", "stateless-encoder", fmt.Sprintf("StatelessEncoder.CompressVote panicked: %v\ninput %x\n%s", p, data, st))
			return
		}
		if sd.enabled && s.sd[1-dir].stlessAdvertised(s) {
			in := sl
			if serr != nil {
				in = data
			}
			if sd.twinEnc == nil {
				sd.twinEnc, _ = vpack.NewStatefulEncoder(sd.tblSize)
			}
			if sd.twinEnc != nil {
				if p, st := safely(func() { sd.twinEnc.Compress(make([]byte, 0, vpack.MaxCompressedVoteSize), in) }); p != nil {
					s.violate("panic", "stateful-encoder", fmt.Sprintf("StatefulEncoder.Compress panicked: %v\ninput %x\n%s", p, in, st))
					return
				}
			}
		}
	}
	ok := false
	if p, st := safely(func() { ok = sd.peer.Send(tag, data) }); p != nil {
		s.violate("panic", "send-path", fmt.Sprintf("broadcast preparation panicked: %v\ninput %s %x\n%s", p, tag, data, st))
		return
	}
	if !ok {
		s.harnessErr("send queue of %s refused a message", sd.name)
		return
	}
	synctest.Wait()
	out := sd.conn.takeOut()
	var carried *flight
	for _, o := range out {
		s.nextID++
		fl := &flight{id: s.nextID, mtype: o.mtype, data: o.data, enc: o.enc}
		if isAbort(o.data) {
			fl.control = true
			sd.enabled = false
			s.stat("abort_sent_by_encoder", 1)
		} else {
			if carried != nil {
				s.harnessErr("one send produced two data frames")
				return
			}
			fl.orig = m
			carried = fl
		}
		s.links[dir] = append(s.links[dir], fl)
	}
	if carried == nil {
		if sd.conn.isClosed() {
			s.noteClosed(dir)
			return
		}
		s.harnessErr("send of %s produced no frame", tag)
		return
	}
	ft := string(carried.data[:2])
	if ft == string(protocol.VotePackedTag) {
		s.vpFrames++
		s.stat("vp_frames", 1)
		h1 := carried.data[3]
		if h1&0xe0 != 0 || h1&0x1c != 0 {
			s.refHits++
		}
		if h1&(1<<5) != 0 {
			s.stat("ref_snd", 1)
		}
		if h1&(1<<6) != 0 {
			s.stat("ref_pk", 1)
		}
		if h1&(1<<7) != 0 {
			s.stat("ref_pk2", 1)
		}
		if h1&0x1c != 0 {
			s.stat("ref_prop", 1)
		}
		if h1&3 != 0 {
			s.stat("rnd_delta", 1)
		}
		if f := s.curVote; f != nil {
			// reach probes: a literal for something this encoder already sent means it was evicted
			if sd.seenSnd == nil {
				sd.seenSnd, sd.seenProp = map[[32]byte]bool{}, map[[32]byte]int{}
			}
			if h1&(1<<5) == 0 && sd.seenSnd[f.Snd] {
				s.stat("lru_sender_evicted_and_resent", 1)
			}
			sd.seenSnd[f.Snd] = true
			if h1&0x1c == 0 {
				if _, ok := sd.seenProp[f.Dig]; ok {
					s.stat("window_entry_evicted_and_resent", 1)
				}
				sd.propSeq++
				if sd.propSeq > 7 {
					s.stat("window_wraparound_inserts", 1)
				}
				sd.seenProp[f.Dig] = sd.propSeq
			}
		}
	} else if vote {
		if len(carried.data)-2 == len(data) {
			s.stat("av_raw_frames", 1)
		} else {
			s.stat("av_stateless_frames", 1)
		}
	} else {
		s.stat("other_frames", 1)
	}
	s.log.Add("step %d send %s #%d %s %s len=%d -> frame %s len=%d%s", s.step, sd.name, m.id, tag, desc, len(data), ft, len(carried.data), map[bool]string{true: " +ABORT", false: ""}[len(out) > 1])
}

// stlessAdvertised: does this side advertise vpack support (so that the other side sends it
// compressed votes)? Equal to this side's EnableVoteCompression.
func (sd *side) stlessAdvertised(s *codecSim) bool {
	if sd == s.sd[0] {
		return s.cfg.En[0]
	}
	return s.cfg.En[1]
}

func (s *codecSim) noteClosed(i int) {
	sd := s.sd[i]
	if !sd.closed {
		sd.closed = true
		s.stat("peer_closed", 1)
		s.log.Add("peer %s closed (%s): reconnecting", sd.name, sd.reason)
	}
	s.disconnect()
	s.connect()
}

// ---------------------------------------------------------------- delivering

func corrupt(data []byte, kind string, r uint64) []byte {
	sm := splitmix{x: r}
	out := append([]byte(nil), data...)
	body := out[2:]
	switch kind {
	case "flip", "flip2":
		n := 1
		if kind == "flip2" {
			n = 2 + sm.intn(3)
		}
		for i := 0; i < n && len(body) > 0; i++ {
			body[sm.intn(len(body))] ^= byte(1 + sm.intn(255))
		}
	case "hdr1":
		if len(body) > 1 {
			body[1] ^= 1 << uint(sm.intn(8))
		}
	case "hdr0":
		if len(body) > 0 {
			body[0] ^= 1 << uint(sm.intn(8))
		}
	case "truncate":
		out = out[:2+sm.intn(len(body)+1)]
		if len(out) == len(data) && len(out) > 2 {
			out = out[:len(out)-1]
		}
	case "extend":
		for i, n := 0, 1+sm.intn(8); i < n; i++ {
			out = append(out, byte(sm.next()))
		}
	case "random":
		n := sm.intn(320)
		out = out[:2]
		for i := 0; i < n; i++ {
			out = append(out, byte(sm.next()))
		}
	case "ref":
		if len(body) > 4 {
			i := 2 + sm.intn(len(body)-3)
			body[i], body[i+1] = 0xff, byte(0xf0+sm.intn(16))
		}
	}
	// never forge the abort control message: that is the sender harming only itself
	if isAbort(out) {
		out[2] = 0xfe
	}
	return out
}

type expectation struct {
	some          bool   // a message must be delivered
	bytes         []byte // ... with exactly these bytes
	why           string
	honest        bool // intact frame produced by an in-sync sender: the bytes are the bytes that were sent
	reject        bool // the reference decoder rejects the frame as malformed
	modelDisagree bool // reference decoding of an honest frame is not the vote that was sent
	stateCheck    bool
}

type delivery struct {
	dir        int
	fl         *flight
	fault      string // "intact", "replay" or a corruption kind
	corrupted  bool
	body       []byte
	exp        expectation
	wasEnabled bool
}

func isVoteFrame(data []byte) bool {
	t := string(data[:2])
	return t == string(protocol.AgreementVoteTag) || t == string(protocol.VotePackedTag)
}

// deliverHead delivers the oldest frame of link dir (sender dir -> receiver 1-dir), optionally
// corrupted, and judges what the real receiver did with it.
func (s *codecSim) deliverHead(dir int, fault string, r uint64) {
	fl := s.links[dir][0]
	rcv := s.sd[1-dir]
	data := fl.data
	if fault != "" && fault != "replay" && !isVoteFrame(fl.data) {
		fault = "" // only vote traffic is corrupted in this check
	}
	switch fault {
	case "":
		s.links[dir] = s.links[dir][1:]
	case "replay":
		// the frame is delivered now and stays in the queue: the receiver sees it twice
		s.stat("fault_replay", 1)
	default:
		s.links[dir] = s.links[dir][1:]
		data = corrupt(fl.data, fault, r)
		if bytes.Equal(data, fl.data) {
			fault = ""
		} else {
			s.stat("fault_corrupt_"+fault, 1)
		}
	}
	dl := &delivery{dir: dir, fl: fl, fault: faultName(fault), corrupted: fault != "" && fault != "replay", wasEnabled: rcv.enabled}
	replay := fault == "replay"
	if !rcv.conn.isWaiting() {
		if rcv.conn.isClosed() {
			s.noteClosed(1 - dir)
			return
		}
		s.harnessErr("receiver %s is not waiting in NextReader", rcv.name)
		return
	}
	tag := protocol.Tag(data[:2])
	body := data[2:]
	dl.body = body
	exp := expectation{}
	switch {
	case fl.control && !dl.corrupted:
		exp.why = "abort"
		rcv.enabled = false
	case tag == protocol.VotePackedTag:
		if !rcv.enabled {
			exp.why = "vp-while-disabled"
			break
		}
		if rcv.twinDec == nil {
			rcv.twinDec, _ = vpack.NewStatefulDecoder(rcv.tblSize)
			rcv.model = newModelDecoder(rcv.tblSize)
		}
		if p, st := safely(func() {
			sl, err := rcv.twinDec.Decompress(make([]byte, 0, vpack.MaxCompressedVoteSize), body)
			if err == nil {
				vpack.NewStatelessDecoder().DecompressVote(nil, sl)
			}
		}); p != nil {
			s.violate("panic", "decoder", fmt.Sprintf("vote decompression panicked: %v\nframe (%s) %x\n%s", p, dl.fault, body, st))
			return
		}
		mv, merr := rcv.model.decodeVP(body)
		honest := fl.orig != nil && !dl.corrupted && !rcv.tainted && !replay && !fl.orig.nonVote
		switch {
		case honest:
			exp = expectation{some: true, bytes: fl.orig.data, why: "honest-vp", honest: true, stateCheck: true}
			exp.modelDisagree = merr != nil || !bytes.Equal(mv, fl.orig.data)
		case merr != nil:
			exp = expectation{why: "malformed-vp: " + merr.Error(), reject: true}
			rcv.enabled = false
		default:
			exp = expectation{some: true, bytes: mv, why: "wellformed-nonhonest-vp"}
		}
		if (dl.corrupted || replay) && merr == nil {
			rcv.tainted = true
		}
	case tag == protocol.AgreementVoteTag:
		exp = expectation{some: true, bytes: body, why: "av-raw"}
		if rcv.stless {
			if p, st := safely(func() { vpack.NewStatelessDecoder().DecompressVote(nil, body) }); p != nil {
				s.violate("panic", "stateless-decoder", fmt.Sprintf("StatelessDecoder.DecompressVote panicked: %v\nframe (%s) %x\n%s", p, dl.fault, body, st))
				return
			}
			if mv, merr := decodeStateless(body); merr == nil {
				exp = expectation{some: true, bytes: mv, why: "av-stateless"}
			} else {
				exp.reject = true // documented fallback: the bytes are handed on unchanged
			}
		}
		if fl.orig != nil && !dl.corrupted && !fl.orig.nonVote {
			exp.honest = true
			if !bytes.Equal(exp.bytes, fl.orig.data) {
				exp.modelDisagree = true
				exp.bytes = fl.orig.data
			}
		}
	default:
		if fl.orig == nil {
			s.harnessErr("frame without origin: %x", data[:2])
			return
		}
		exp = expectation{some: true, bytes: fl.orig.data, why: "other", honest: true}
	}
	dl.exp = exp
	rcv.conn.deliver(&inMsg{mtype: fl.mtype, data: data, errAt: -1, parkAt: -1})
	synctest.Wait()
	s.judge(dl)
}

func faultName(f string) string {
	if f == "" {
		return "intact"
	}
	return f
}

func (s *codecSim) judge(dl *delivery) {
	dir, fl, exp, body := dl.dir, dl.fl, dl.exp, dl.body
	rcv := s.sd[1-dir]
	snd := s.sd[dir]
	var got []network.IncomingMessage
	for more := true; more; {
		select {
		case m := <-rcv.rb:
			got = append(got, m)
			network.VerifMsgDone(m)
		default:
			more = false
		}
	}
	// frames the receiver wrote in reaction (only an abort is possible)
	aborted := false
	for _, o := range rcv.conn.takeOut() {
		s.nextID++
		nf := &flight{id: s.nextID, mtype: o.mtype, data: o.data}
		if !isAbort(o.data) {
			s.harnessErr("receiver wrote an unexpected frame %x", o.data[:2])
			return
		}
		nf.control = true
		aborted = true
		s.stat("abort_sent_by_decoder", 1)
		s.links[1-dir] = append(s.links[1-dir], nf)
	}
	cs := rcv.peer.CodecState(false)
	tag := string(fl.data[:2])
	desc := fmt.Sprintf("frame #%d %s (%s, %s) %s->%s", fl.id, tag, dl.fault, exp.why, snd.name, rcv.name)
	s.log.Add("step %d deliver %s len=%d delivered=%d aborted=%v stateful=%v", s.step, desc, len(body), len(got), aborted, cs.StatefulEnabled)
	if len(got) > 1 {
		s.violate("unexpected-delivery", "", fmt.Sprintf("%s: one frame produced %d messages", desc, len(got)))
		return
	}
	if rcv.conn.isClosed() {
		// tearing the connection down is allowed after a fault, never on an intact honest frame
		if exp.honest && dl.fault == "intact" {
			s.violate("honest-frame-closed-connection", "", fmt.Sprintf("%s: receiver closed the connection (%s) on an intact frame", desc, rcv.reason))
			return
		}
		s.noteClosed(1 - dir)
		return
	}
	var d []byte
	if len(got) == 1 {
		d = got[0].Data
		if got[0].Tag != protocol.AgreementVoteTag && (tag == "VP" || tag == "AV") {
			s.violate("unexpected-delivery", "", fmt.Sprintf("%s: delivered under tag %s", desc, got[0].Tag))
			return
		}
	}
	switch {
	case exp.some && len(got) == 1 && bytes.Equal(d, exp.bytes):
		if exp.modelDisagree {
			s.harnessErr("%s: real code reproduced the sent bytes but the reference model does not (model bug)\nframe %x", desc, body)
			return
		}
		if fl.orig != nil && fl.orig.vote && exp.honest {
			s.stat("votes_delivered_identical", 1)
		}
		if !exp.honest {
			s.stat("nonhonest_frames_agree_with_model", 1)
		}
		if fl.orig != nil && fl.orig.nonVote && !dl.corrupted && !bytes.Equal(d, fl.orig.data) {
			// observation, not a verdict: the payload was not a vote (see report)
			s.stat("nonvote_av_payload_rewritten", 1)
		}
	case exp.some && len(got) == 1:
		if exp.honest {
			s.violate("vote-differs", "", fmt.Sprintf("%s: delivered bytes differ from the bytes sent\n sent %x\n got  %x\n frame %x", desc, exp.bytes, d, body))
		} else {
			s.violate("silent-wrong-vote", "", fmt.Sprintf("%s: the receiver accepted a frame the sender's encoder did not produce and delivered a vote different from what the frame denotes in the receiver's state\n denotes %x\n got     %x\n frame   %x", desc, exp.bytes, d, body))
		}
		return
	case exp.some && len(got) == 0:
		if exp.honest {
			s.violate("honest-vote-lost", "", fmt.Sprintf("%s: an intact frame from an in-sync sender was not delivered (abort sent=%v)\n sent %x\n frame %x", desc, aborted, exp.bytes, body))
			return
		}
		// well-formed per the reference but rejected by the real decoder: stricter, not a violation
		s.stat("real_stricter_than_model", 1)
		if tag == "VP" {
			rcv.enabled = false
		}
	case !exp.some && len(got) == 1:
		if exp.reject {
			s.violate("malformed-accepted", "", fmt.Sprintf("%s: malformed compressed input was accepted and delivered\n got %x\n frame %x", desc, d, body))
		} else {
			s.violate("unexpected-delivery", "", fmt.Sprintf("%s: a message was delivered although none is due\n got %x", desc, d))
		}
		return
	default:
		if exp.reject {
			s.stat("malformed_rejected", 1)
		}
	}
	if tag == "VP" && !fl.control && !dl.wasEnabled {
		s.stat("vp_dropped_while_disabled", 1)
	}
	// the real flag must agree with what the harness derived
	if cs.StatefulEnabled != rcv.enabled {
		if exp.reject && cs.StatefulEnabled {
			s.violate("malformed-accepted", "", fmt.Sprintf("%s: malformed compressed input did not produce an error (stateful compression still on)\n frame %x", desc, body))
			return
		}
		s.harnessErr("%s: harness expected stateful=%v, real=%v", desc, rcv.enabled, cs.StatefulEnabled)
		return
	}
	// a receiver that switched itself off because of an error must tell the sender
	wantAbort := dl.wasEnabled && !rcv.enabled && !(fl.control && !dl.corrupted)
	if wantAbort && !aborted {
		s.violate("fallback-not-propagated", "", fmt.Sprintf("%s: the receiver disabled stateful compression after an error but sent no abort message", desc))
		return
	}
	if aborted && !wantAbort {
		s.harnessErr("%s: unexpected abort (wasEnabled=%v nowEnabled=%v)", desc, dl.wasEnabled, rcv.enabled)
		return
	}
	// state equality: after an intact frame from an in-sync sender the receiver's table state must
	// equal the sender's state at the moment it produced the frame
	if exp.stateCheck && fl.enc != nil && rcv.enabled {
		full := rcv.peer.CodecState(true)
		s.compares++
		s.stat("state_compares", 1)
		if !bytes.Equal(full.Dec, fl.enc) {
			s.violate("state-desync", "", fmt.Sprintf("%s: receiver's dynamic-table state (LRU tables, MRU bits, proposal window, last round) differs from the sender's state right after it produced this frame\n sender digest   %x\n receiver digest %x", desc, fl.enc, full.Dec))
			return
		}
	}
}

func firstDiff(a, b []byte) int {
	n := min(len(a), len(b))
	for i := 0; i < n; i++ {
		if a[i] != b[i] {
			return i
		}
	}
	return n
}

func (s *codecSim) finish(res *kernel.RunResult) {
	res.Nontrivial = s.vpFrames >= 10 && s.refHits >= 3 && s.compares >= 5
	res.Sample = map[string]any{"steps": s.step, "cfg": fmt.Sprintf("%+v", s.cfg), "vp_frames": s.vpFrames, "frames_with_refs": s.refHits, "state_compares": s.compares, "tape_len": len(s.tape.Rec)}
}
