package repro

import (
	"encoding/hex"
	"testing"

	"github.com/algorand/go-algorand/crypto/merkletrie"
)

func k(s string) []byte { b, _ := hex.DecodeString(s); return b }

func run(t *testing.T, cfg merkletrie.MemoryConfig) (failAt string) {
	mc := &merkletrie.InMemoryCommitter{}
	mt, err := merkletrie.MakeTrie(mc, cfg)
	if err != nil {
		t.Fatal(err)
	}
	add := func(s string, want bool) bool {
		ok, err := mt.Add(k(s))
		if err != nil || ok != want {
			failAt = "add " + s + ": " + err.Error()
			return false
		}
		if _, err := mt.RootHash(); err != nil {
			failAt = "roothash after add " + s + ": " + err.Error()
			return false
		}
		return true
	}
	if !add("0001000101", true) || !add("0001010100", true) || !add("0100010000", true) || !add("0001000001", true) {
		return
	}
	if _, err := mt.Evict(true); err != nil {
		return "evict: " + err.Error()
	}
	if !add("0100000000", true) {
		return
	}
	add("0001000001", false)
	return
}

func TestRepro(t *testing.T) {
	cfgs := []merkletrie.MemoryConfig{
		{NodesCountPerPage: 32, CachedNodesCount: 4, PageFillFactor: 0.75, MaxChildrenPagesThreshold: 1},
		{NodesCountPerPage: 32, CachedNodesCount: 0, PageFillFactor: 0.75, MaxChildrenPagesThreshold: 1},
		{NodesCountPerPage: 32, CachedNodesCount: 4, PageFillFactor: 0.75, MaxChildrenPagesThreshold: 64},
		{NodesCountPerPage: 32, CachedNodesCount: 4, PageFillFactor: 0.95, MaxChildrenPagesThreshold: 64},
		{NodesCountPerPage: 116, CachedNodesCount: 4, PageFillFactor: 0.95, MaxChildrenPagesThreshold: 64},
		{NodesCountPerPage: 116, CachedNodesCount: 9000, PageFillFactor: 0.95, MaxChildrenPagesThreshold: 64},
	}
	for _, c := range cfgs {
		fails := map[string]int{}
		for i := 0; i < 200; i++ {
			fails[run(t, c)]++
		}
		t.Logf("%+v -> %v", c, fails)
	}
}
