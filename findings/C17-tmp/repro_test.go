package repro

import (
	"encoding/hex"
	"testing"

	"github.com/algorand/go-algorand/crypto/merkletrie"
)

func k(s string) []byte { b, _ := hex.DecodeString(s); return b }

func TestRepro(t *testing.T) {
	K := []string{"",
		"000000040319a342f60f5086997053191b3007b3e43fcc96bdde64513d41036a4dc4f3a077",
		"00000003033949fe95cbcdfc3b5122858ba902ee69969b3fb8001a40ca98e2a16348b94b9a",
		"000000020142079202f3226fe9855d623f6770315a688a6f263aab0bff5f58d5d3d2ba89e6",
		"000000040105079368ca949e8b32ea12b1cf9606562d51b0913c6513faeca9c9a4d39978e8",
		"00000003001fa5eb51a9b74d8e11353a87faf450b5df084443c847941da90c225c26147fbd",
		"0000000303ff76158c2fd8735026386754890731c5536ca28d868dc75df67a2bf608fc03fb",
		"0000000303538ffded5fe544790a6f482785cd7dd9101991d6c60fd75d7adcbf351aeb24de",
		"0000000303ff76158c2fd8735026386754890731c5536ca28d868dc75df67a2bf608fc0307",
		"000000030306630ec58e954ab3ffba2c6d8b87d6ea9ce4d9da67ee2cb88f2935f95b21350f",
		"00000000034dfd4aaf82fa900710fb9e83570daab5b48104f57ac5b5a651b8b722817eb486",
	}
	for iter := 0; iter < 200; iter++ {
		mc := &merkletrie.InMemoryCommitter{}
		mt, err := merkletrie.MakeTrie(mc, merkletrie.MemoryConfig{NodesCountPerPage: 32, CachedNodesCount: 4, PageFillFactor: 0, MaxChildrenPagesThreshold: 3})
		if err != nil {
			t.Fatal(err)
		}
		add := func(i int, want bool) {
			ok, err := mt.Add(k(K[i]))
			if err != nil || ok != want {
				t.Fatalf("iter %d add K%d: ok=%v err=%v", iter, i, ok, err)
			}
		}
		root := func() {
			if _, err := mt.RootHash(); err != nil {
				t.Fatalf("iter %d roothash: %v", iter, err)
			}
		}
		add(1, true)
		root()
		add(2, true)
		root()
		add(3, true)
		if ok, err := mt.Delete(k(K[1])); !ok || err != nil {
			t.Fatalf("delete: %v %v", ok, err)
		}
		add(4, true)
		add(5, true)
		add(6, true)
		root()
		add(7, true)
		add(8, true)
		root()
		add(9, true)
		if _, err := mt.Evict(true); err != nil {
			t.Fatalf("evict: %v", err)
		}
		add(10, true)
		root()
		add(7, false)
	}
}
