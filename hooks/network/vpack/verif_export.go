//go:build verif

package vpack

import (
	"crypto/sha256"
	"encoding/binary"
	"hash"
)

// Read-only accessors for the /verif simulation harness (build tag verif only; no call sites in
// shipped code). VerifState serialises the complete dynamic-table state of a stateful encoder or
// decoder in a canonical physical form, so that the sender's and the receiver's state can be
// compared for equality (property C42).

// VerifState returns a canonical byte serialisation of the dynamic table state: the three LRU
// tables (bucket count, every slot, every MRU bit), the proposal window (size, then live entries
// newest first) and the last round.
func (s *dynamicTableState) VerifState() []byte {
	var out []byte
	out = verifAppendTable(out, s.sndTable, func(b []byte, k addressValue) []byte { return append(b, k[:]...) })
	out = verifAppendTable(out, s.pkTable, func(b []byte, k pkSigPair) []byte { return append(append(b, k.pk[:]...), k.sig[:]...) })
	out = verifAppendTable(out, s.pk2Table, func(b []byte, k pkSigPair) []byte { return append(append(b, k.pk[:]...), k.sig[:]...) })
	out = append(out, byte(s.proposalWindow.size))
	for idx := 1; idx <= s.proposalWindow.size; idx++ {
		physical := (s.proposalWindow.head + s.proposalWindow.size - idx) % proposalWindowSize
		e := s.proposalWindow.entries[physical]
		out = append(out, e.mask, e.operLen)
		out = append(out, e.dig[:]...)
		out = append(out, e.encdig[:]...)
		out = append(out, e.operEnc[:]...)
		out = append(out, e.oprop[:]...)
	}
	out = binary.BigEndian.AppendUint64(out, s.lastRnd)
	return out
}

// VerifWindowSize returns the number of live proposal-window entries.
func (s *dynamicTableState) VerifWindowSize() int { return s.proposalWindow.size }

func verifAppendTable[K comparable](out []byte, t *lruTable[K], app func([]byte, K) []byte) []byte {
	if t == nil {
		return append(out, 0xff)
	}
	out = binary.BigEndian.AppendUint32(out, uint32(t.numBuckets))
	for b := range t.buckets {
		out = app(out, t.buckets[b].slots[0])
		out = app(out, t.buckets[b].slots[1])
	}
	out = append(out, t.mru...)
	return out
}

// VerifStateDigest is sha256 over the same canonical serialisation as VerifState, computed without
// materialising it (the tables can be several hundred kilobytes).
func (s *dynamicTableState) VerifStateDigest() [32]byte {
	h := sha256.New()
	verifHashTable(h, s.sndTable, func(h hash.Hash, k *addressValue) { h.Write(k[:]) })
	verifHashTable(h, s.pkTable, func(h hash.Hash, k *pkSigPair) { h.Write(k.pk[:]); h.Write(k.sig[:]) })
	verifHashTable(h, s.pk2Table, func(h hash.Hash, k *pkSigPair) { h.Write(k.pk[:]); h.Write(k.sig[:]) })
	h.Write([]byte{byte(s.proposalWindow.size)})
	for idx := 1; idx <= s.proposalWindow.size; idx++ {
		physical := (s.proposalWindow.head + s.proposalWindow.size - idx) % proposalWindowSize
		e := &s.proposalWindow.entries[physical]
		h.Write([]byte{e.mask, e.operLen})
		h.Write(e.dig[:])
		h.Write(e.encdig[:])
		h.Write(e.operEnc[:])
		h.Write(e.oprop[:])
	}
	var b [8]byte
	binary.BigEndian.PutUint64(b[:], s.lastRnd)
	h.Write(b[:])
	var out [32]byte
	h.Sum(out[:0])
	return out
}

func verifHashTable[K comparable](h hash.Hash, t *lruTable[K], w func(hash.Hash, *K)) {
	if t == nil {
		h.Write([]byte{0xff})
		return
	}
	var b [4]byte
	binary.BigEndian.PutUint32(b[:], uint32(t.numBuckets))
	h.Write(b[:])
	for i := range t.buckets {
		w(h, &t.buckets[i].slots[0])
		w(h, &t.buckets[i].slots[1])
	}
	h.Write(t.mru)
}
