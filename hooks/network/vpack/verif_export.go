//go:build verif

package vpack

import (
	"encoding/binary"
)

// Read-only accessors for the /verif simulation harness (build tag verif only; no call sites in
// shipped code). VerifState serialises the complete dynamic-table state of a stateful encoder or
// decoder in a canonical physical form, so that the sender's and the receiver's state can be
// compared for equality (property C42).

// VerifState returns a canonical byte serialisation of the dynamic table state: the three LRU
// tables (bucket count, every slot, every MRU bit), the proposal window (size, then live entries
// newest first) and the last round.
func (s *dynamicTableState) VerifState() []byte {
	var out []byte
	out = verifAppendTable(out, s.sndTable, func(b []byte, k addressValue) []byte { return append(b, k[:]...) })
	out = verifAppendTable(out, s.pkTable, func(b []byte, k pkSigPair) []byte { return append(append(b, k.pk[:]...), k.sig[:]...) })
	out = verifAppendTable(out, s.pk2Table, func(b []byte, k pkSigPair) []byte { return append(append(b, k.pk[:]...), k.sig[:]...) })
	out = append(out, byte(s.proposalWindow.size))
	for idx := 1; idx <= s.proposalWindow.size; idx++ {
		physical := (s.proposalWindow.head + s.proposalWindow.size - idx) % proposalWindowSize
		e := s.proposalWindow.entries[physical]
		out = append(out, e.mask, e.operLen)
		out = append(out, e.dig[:]...)
		out = append(out, e.encdig[:]...)
		out = append(out, e.operEnc[:]...)
		out = append(out, e.oprop[:]...)
	}
	out = binary.BigEndian.AppendUint64(out, s.lastRnd)
	return out
}

// VerifWindowSize returns the number of live proposal-window entries.
func (s *dynamicTableState) VerifWindowSize() int { return s.proposalWindow.size }

func verifAppendTable[K comparable](out []byte, t *lruTable[K], app func([]byte, K) []byte) []byte {
	if t == nil {
		return append(out, 0xff)
	}
	out = binary.BigEndian.AppendUint32(out, uint32(t.numBuckets))
	for b := range t.buckets {
		out = app(out, t.buckets[b].slots[0])
		out = app(out, t.buckets[b].slots[1])
	}
	out = append(out, t.mru...)
	return out
}
