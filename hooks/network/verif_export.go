//go:build verif

package network

import (
	"context"
	"io"
	"net"
	"net/http"
	"time"

	"github.com/algorand/go-algorand/config"
	"github.com/algorand/go-algorand/logging"
	"github.com/algorand/go-algorand/protocol"
)

// Constructive / read-only shims for the /verif simulation harness (build tag verif only; no call
// sites in shipped code, no behaviour change). They let the harness run the real wsPeer
// (readLoop, writeLoop, wsPeerMsgCodec, LimitedReaderSlurper, messageFilter) over a simulated
// websocket connection.

// VerifConn has exactly the method set of the unexported wsPeerWebsocketConn.
type VerifConn interface {
	RemoteAddr() net.Addr
	RemoteAddrString() string
	NextReader() (int, io.Reader, error)
	WriteMessage(int, []byte) error
	CloseWithMessage([]byte, time.Time) error
	SetReadLimit(int64)
	CloseWithoutFlush() error
	UnderlyingConn() net.Conn
}

// Constants the oracles refer to (read-only copies).
const (
	VerifAllocationStep       = allocationStep
	VerifAverageMessageLength = averageMessageLength
	VerifAbortByte            = voteCompressionAbortMessage
)

// VerifDedupSafeTag exposes dedupSafeTag.
func VerifDedupSafeTag(t protocol.Tag) bool { return dedupSafeTag(t) }

// VerifFilter wraps the real incoming message filter.
type VerifFilter struct{ f *messageFilter }

// VerifMakeFilter builds a real messageFilter.
func VerifMakeFilter(bucketsCount, maxBucketSize int) *VerifFilter {
	return &VerifFilter{f: makeMessageFilter(bucketsCount, maxBucketSize)}
}

// verifNet is the minimal GossipNode a wsPeer needs: it only ever calls peerRemoteClose.
type verifNet struct {
	GossipNode
	onClose func(reason string)
}

func (n *verifNet) peerRemoteClose(peer *wsPeer, reason disconnectReason) {
	if n.onClose != nil {
		n.onClose(string(reason))
	}
}

// verifMeta feeds the real setHeaders so that the advertised feature string is the real one.
type verifMeta struct {
	enable bool
	size   uint
}

func (m verifMeta) TelemetryGUID() string                  { return "" }
func (m verifMeta) InstanceName() string                   { return "" }
func (m verifMeta) GetGenesisID() string                   { return "verif" }
func (m verifMeta) PublicAddress() string                  { return "" }
func (m verifMeta) RandomID() string                       { return "" }
func (m verifMeta) SupportedProtoVersions() []string       { return SupportedProtocolVersions }
func (m verifMeta) VoteCompressionEnabled() bool           { return m.enable }
func (m verifMeta) StatefulVoteCompressionTableSize() uint { return m.size }

// VerifPeerConfig describes one end of a simulated connection.
type VerifPeerConfig struct {
	Conn       VerifConn
	ReadBuffer chan<- IncomingMessage
	Filter     *VerifFilter // shared incoming filter, may be nil
	Log        logging.Logger
	Addr       string
	// this node's configuration
	EnableVoteCompression bool
	VoteTableSize         uint // config.StatefulVoteCompressionTableSize (normalised by the real code)
	// the remote node's configuration (what it advertises in the real handshake header)
	RemoteEnableVoteCompression bool
	RemoteVoteTableSize         uint
	OnClose                     func(reason string)
	SendBuffer                  int
}

// VerifPeer is a real wsPeer running its real read and write loops over Conn.
type VerifPeer struct {
	wp *wsPeer
	bc *msgBroadcaster
}

// VerifMakePeer builds a wsPeer the way wsNetwork does for an accepted connection and starts it.
func VerifMakePeer(c VerifPeerConfig) *VerifPeer {
	cfg := config.GetDefaultLocal()
	cfg.EnableVoteCompression = c.EnableVoteCompression
	cfg.StatefulVoteCompressionTableSize = c.VoteTableSize
	rcfg := config.GetDefaultLocal()
	rcfg.StatefulVoteCompressionTableSize = c.RemoteVoteTableSize
	// the remote's handshake header, produced by the real setHeaders and parsed by the real decoder
	h := http.Header{}
	setHeaders(h, "", verifMeta{enable: c.RemoteEnableVoteCompression, size: rcfg.NormalizedVoteCompressionTableSize(c.Log)})
	vn := &verifNet{onClose: c.OnClose}
	wp := &wsPeer{
		wsPeerCore:               makePeerCore(context.Background(), vn, c.Log, c.ReadBuffer, c.Addr, nil, c.Addr),
		conn:                     c.Conn,
		outgoing:                 false,
		createTime:               time.Now(),
		version:                  versionPeerFeatures,
		features:                 decodePeerFeatures(versionPeerFeatures, h.Get(PeerFeaturesHeader)),
		enableVoteCompression:    cfg.EnableVoteCompression,
		voteCompressionTableSize: cfg.NormalizedVoteCompressionTableSize(c.Log),
	}
	if c.Filter != nil {
		wp.incomingMsgFilter = c.Filter.f
	}
	sb := c.SendBuffer
	if sb <= 0 {
		sb = 256
	}
	wp.init(cfg, sb)
	return &VerifPeer{wp: wp, bc: &msgBroadcaster{ctx: context.Background(), log: c.Log, config: cfg, enableVoteCompression: cfg.EnableVoteCompression}}
}

// Send does for this one peer what msgBroadcaster.innerBroadcast does per peer: the real
// preparePeerData (zstd for proposals, stateless vpack for votes), the real choice between the plain
// and the compressed form, and the real writeNonBlock into the peer's send queue.
func (p *VerifPeer) Send(tag protocol.Tag, data []byte) bool {
	prio := highPriorityTag(tag)
	plain, withCompression, digest := p.bc.preparePeerData(broadcastRequest{tag: tag, data: data, enqueueTime: time.Now(), ctx: context.Background()}, prio)
	dataToSend := plain
	if p.wp.vpackVoteCompressionSupported() && len(withCompression) > 0 {
		dataToSend = withCompression
	}
	return p.wp.writeNonBlock(context.Background(), dataToSend, prio, digest, time.Now())
}

// Close closes the peer the way the network does.
func (p *VerifPeer) Close() { p.wp.Close(time.Now().Add(peerDisconnectionAckDuration)) }

// Is reports whether sender is this peer.
func (p *VerifPeer) Is(sender DisconnectableAddressablePeer) bool {
	w, ok := sender.(*wsPeer)
	return ok && w == p.wp
}

// VerifCodecState is a snapshot of the peer's vote codec.
type VerifCodecState struct {
	StatelessDecode bool // incoming AV is run through the stateless decoder
	StatefulEnabled bool
	TableSize       uint
	Enc, Dec        []byte // vpack VerifStateDigest of the stateful encoder / decoder, nil before first use
}

// CodecState reads the peer's codec state; call only while the peer's loops are quiescent.
func (p *VerifPeer) CodecState(withTables bool) VerifCodecState {
	c := p.wp.msgCodec
	s := VerifCodecState{StatelessDecode: c.avdec.enabled, StatefulEnabled: c.statefulVoteEnabled.Load(), TableSize: c.statefulVoteTableSize}
	if withTables {
		if c.statefulVoteEnc != nil {
			d := c.statefulVoteEnc.VerifStateDigest()
			s.Enc = d[:]
		}
		if c.statefulVoteDec != nil {
			d := c.statefulVoteDec.VerifStateDigest()
			s.Dec = d[:]
		}
	}
	return s
}

// EncState returns the digest of the stateful encoder's table state (nil before first use). It is
// meant to be called from the peer's own write loop (inside the simulated conn's WriteMessage).
func (p *VerifPeer) EncState() []byte {
	if c := p.wp.msgCodec; c != nil && c.statefulVoteEnc != nil {
		d := c.statefulVoteEnc.VerifStateDigest()
		return d[:]
	}
	return nil
}

// DecStateDump returns the full serialised state of the stateful decoder (diagnostics only).
func (p *VerifPeer) DecStateDump() []byte {
	if c := p.wp.msgCodec; c != nil && c.statefulVoteDec != nil {
		return c.statefulVoteDec.VerifState()
	}
	return nil
}

// VerifMsgDone returns the per-peer read-buffer token the way messageHandlerThread does.
func VerifMsgDone(m IncomingMessage) {
	if m.processing != nil {
		select {
		case m.processing <- struct{}{}:
		default:
		}
	}
}
