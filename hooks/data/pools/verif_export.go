//go:build verif

package pools

import "github.com/algorand/go-algorand/data/basics"

// Read-only view for the ledgersim tx-pool proposer (C20, C44). Add-only, build tag verif, no
// behaviour change.

// VerifAssemblyRound returns the round the last AssembleBlock call asked for. AssembleBlock sets it
// while holding assemblyMu and only releases that lock inside sync.Cond.Wait (after it joined the
// condition's notify list), so once the simulation scheduler reads the requested round here, the
// assembling goroutine is guaranteed to be woken by the next OnNewBlock. The scheduler cannot use
// synctest.Wait() for this: condvar.TimedWait sleeps with a real nanosleep(2) on Linux, which is
// invisible to the bubble's fake clock.
func (pool *TransactionPool) VerifAssemblyRound() basics.Round {
	pool.assemblyMu.Lock()
	defer pool.assemblyMu.Unlock()
	return pool.assemblyRound
}

// VerifAssemblyState reports whether the pool holds a finished assembly result and for which round
// (assemblyResults.ok / roundStartedEvaluating). After OnNewBlock(r) returned this is (true, r+1); the
// scheduler checks that before it lets anything wait for the pool (see VerifAssemblyRound).
func (pool *TransactionPool) VerifAssemblyState() (bool, basics.Round) {
	pool.assemblyMu.Lock()
	defer pool.assemblyMu.Unlock()
	return pool.assemblyResults.ok, pool.assemblyResults.roundStartedEvaluating
}
