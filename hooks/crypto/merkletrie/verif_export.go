//go:build verif

package merkletrie

// Read-only shim for the /verif simulation harness (build tag verif only; no call sites in shipped
// code, no behaviour change).

// VerifTailPage reports the page the next node identifier falls into, whether that page is only
// partly allocated (the next identifier is not page-aligned, so the page already holds committed
// nodes), whether the cache currently holds that page, and whether the cache has scheduled the
// deferred load of that page (which MakeTrie does for a reloaded trie). triesim uses it solely to attribute
// violations to the known finding C17/evict-drops-partial-tail-page; it never feeds an oracle.
func (mt *Trie) VerifTailPage() (page uint64, partial bool, cached bool, deferred bool) {
	page = uint64(mt.nextNodeID) / uint64(mt.cache.nodesPerPage)
	partial = int64(mt.nextNodeID)%mt.cache.nodesPerPage != 0
	_, cached = mt.cache.pageToNIDsPtr[page]
	deferred = mt.cache.deferedPageLoad == page
	return
}
