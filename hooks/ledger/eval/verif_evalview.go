//go:build verif

package eval

import (
	"fmt"
	"sort"
	"strings"

	"github.com/algorand/go-algorand/data/basics"
	"github.com/algorand/go-algorand/data/transactions"
	"github.com/algorand/go-algorand/ledger/ledgercore"
)

// Read-only views of the in-progress block for the ledgersim atomicity / min-balance oracles
// (C19, C21). Add-only, build tag verif, no behaviour change: nothing here writes to the evaluator.

// VerifEvalView is what TransactionGroup may change when a group commits.
type VerifEvalView struct {
	Mods          *ledgercore.StateDelta // the evaluator's uncommitted block delta; MUST NOT be mutated by the caller
	Payset        transactions.Payset    // aliases the block under construction; read-only
	TxnCount      uint64
	FeesCollected basics.MicroAlgos
	BlockTxBytes  int
	Corrupted     bool
	Storage       string // canonical dump of the pending app key/value storage deltas
}

// VerifView returns the evaluator's current uncommitted state without touching it
// (in particular it does not call deltas(), which folds storage deltas into the accounts).
func (eval *BlockEvaluator) VerifView() VerifEvalView {
	st := eval.state
	return VerifEvalView{Mods: &st.mods, Payset: eval.block.Payset, TxnCount: st.txnCount, FeesCollected: st.feesCollected,
		BlockTxBytes: eval.blockTxBytes, Corrupted: eval.corruptedState, Storage: verifDumpStorage(st.sdeltas)}
}

// VerifLookup is the account as the block under construction currently sees it (no pending rewards applied).
func (eval *BlockEvaluator) VerifLookup(addr basics.Address) (ledgercore.AccountData, error) {
	return eval.state.lookup(addr)
}

// VerifModifiedAccounts lists the accounts modified so far in this block.
func (eval *BlockEvaluator) VerifModifiedAccounts() []basics.Address {
	return eval.state.modifiedAccounts()
}

func verifDumpStorage(sd map[basics.Address]map[storagePtr]*storageDelta) string {
	type ent struct {
		addr basics.Address
		ptr  storagePtr
	}
	var l []ent
	for a, m := range sd {
		for p := range m {
			l = append(l, ent{a, p})
		}
	}
	sort.Slice(l, func(i, j int) bool {
		if l[i].addr != l[j].addr {
			return string(l[i].addr[:]) < string(l[j].addr[:])
		}
		if l[i].ptr.aidx != l[j].ptr.aidx {
			return l[i].ptr.aidx < l[j].ptr.aidx
		}
		return !l[i].ptr.global && l[j].ptr.global
	})
	var b strings.Builder
	for _, e := range l {
		d := sd[e.addr][e.ptr]
		fmt.Fprintf(&b, "%x/%d/%v act=%d counts=%+v max=%+v idx=%d{", e.addr[:], e.ptr.aidx, e.ptr.global, d.action, d.counts, d.maxCounts, d.accountIdx)
		ks := make([]string, 0, len(d.kvCow))
		for k := range d.kvCow {
			ks = append(ks, k)
		}
		sort.Strings(ks)
		for _, k := range ks {
			v := d.kvCow[k]
			fmt.Fprintf(&b, "%q:%v/%v/%d/%q/%d->%v/%d/%q/%d;", k, v.oldExists, v.newExists, v.old.Type, v.old.Bytes, v.old.Uint, v.newExists, v.new.Type, v.new.Bytes, v.new.Uint)
		}
		b.WriteString("}\n")
	}
	return b.String()
}
