//go:build verif

package eval

import "github.com/algorand/go-algorand/ledger/ledgercore"

// VerifEndOfBlock finishes a block that was fed group by group through TransactionGroup to an
// evaluator started with Generate=false: it runs the same end-of-block processing and header checks
// that Eval() runs after its (prefetching) transaction loop and returns the resulting StateDelta.
// ledgersim (C20) uses it to evaluate a block WITHOUT the prefetcher and without the signature
// verification pool and compare the result with Ledger.Validate. Add-only, build tag verif.
func (eval *BlockEvaluator) VerifEndOfBlock() (ledgercore.StateDelta, error) {
	if err := eval.endOfBlock(); err != nil {
		return ledgercore.StateDelta{}, err
	}
	return eval.state.deltas(), nil
}
