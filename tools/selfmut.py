#!/usr/bin/env python3
"""Sensitivity self-test: apply small deliberate breakages (text substitutions) to a scratch worktree of
/repo, run the named quick checks against it (VERIF_REPO), and report which were caught.
usage: tools/selfmut.py <mutfile.json> [name ...]"""
import json, os, subprocess, sys, shutil, hashlib
V = "/verif"
muts = json.load(open(sys.argv[1]))
only = set(sys.argv[2:])
wt = "/tmp/wt-selfmut-%d" % os.getpid()
subprocess.run(["git", "-C", "/repo", "worktree", "add", "-q", "--detach", wt, "HEAD"], check=True)
res = []
try:
    for m in muts:
        if only and m["name"] not in only:
            continue
        subprocess.run(["git", "-C", wt, "checkout", "-q", "--", "."], check=True)
        ok = True
        for e in m["edits"]:
            p = os.path.join(wt, e["file"])
            s = open(p).read()
            if e["old"] not in s:
                print("MUTATION %s: pattern not found in %s" % (m["name"], e["file"]))
                ok = False
                break
            open(p, "w").write(s.replace(e["old"], e["new"], 1))
        if not ok:
            res.append((m["name"], "-", "pattern-missing"))
            continue
        for prop in m["props"]:
            env = dict(os.environ, VERIF_REPO=wt)
            r = subprocess.run([os.path.join(V, "check"), prop, "--budget", str(m.get("budget", 40)), "--no-evidence"], env=env, cwd=V, capture_output=True, text=True)
            last = [l for l in r.stdout.splitlines() if l.strip()][-3:]
            verdict = {0: "MISSED", 1: "CAUGHT", 2: "HARNESS/BUILD"}.get(r.returncode, str(r.returncode))
            viol = [l for l in r.stdout.splitlines() if l.startswith("violation:")][:1]
            print("== %s / %s: %s %s" % (m["name"], prop, verdict, (viol[0][:200] if viol else "")), flush=True)
            if verdict == "HARNESS/BUILD":
                print("\n".join(r.stdout.splitlines()[-15:]))
            res.append((m["name"], prop, verdict))
finally:
    subprocess.run(["git", "-C", "/repo", "worktree", "remove", "--force", wt])
    alt = os.path.join(V, "build", "alt-" + hashlib.md5(wt.encode()).hexdigest()[:10])
    shutil.rmtree(alt, ignore_errors=True)
print(json.dumps(res))
