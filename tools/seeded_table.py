#!/usr/bin/env python3
"""Prints the markdown table of seeded (independently authored) breaking changes and which checks caught them."""
import json, glob, os, re

# what the change is (one line, from the author's notes) and what - if anything - had to be strengthened
WHAT = {
    "C01-a": ("agreement/player.go: cert vote allowed while in step `next` (after a bottom next-vote)",
              "fork hunting: clean-hunt profile, payload/clock holds, isolation of the lightest node, per-assembly blocks (11.1)"),
    "C02-a": ("agreement/actions.go: bottom votes no longer count as persistent actions (sent without a persisted state)", ""),
    "C03-a": ("agreement: bundle with the same voter as plain vote and equivocation pair accepted",
              "ghost (tally) mode also for C03/C04 runs"),
    "C04-a": ("agreement: certificate with a voter that is also an equivocation pair authenticates",
              "crafting adversary builds `voter-also-eq-pair`; oracle calls the real Certificate.Authenticate"),
    "C05-a": ("agreement/voteAggregator.go: bundles of an earlier period are no longer verified (two groups that saw different next-quorums never re-converge)", "none; note the reach: the needed split state appears in about 1 of 500 runs with the first engine version and 1 of ~1800 after the determinism changes of 11.3 (a quick run does ~600): caught by about one quick run in three, by the thorough tier reliably"),
    "C06-a": ("agreement/voteTracker.go: a stale plain vote survives an equivocation: emitted bundle holds the sender twice", "ghost (tally) mode: most stake held by crafted voters"),
    "C07-a": ("agreement/persistence.go: next-round routers dropped from the persisted state",
              "hold fault (a node lags one round with pipelined next-round traffic); longer twin horizon there"),
    "C08-a": ("ledger/acctupdates.go lookupKv: accepts a database that moved past the requested round", ""),
    "C09-a": ("util/db: a panic inside a transaction commits the half-done transaction",
              "crash and fault sites INSIDE the block-write and tracker-commit transactions (new /repo hook commit)"),
    "C10-a": ("ledger/acctupdates.go: asset paging drops an in-memory opt-in when deletions are pending", ""),
    "C11-a": ("ledger/txtail.go: lease expiry rebuilt from the wrong LastValid after a restart", ""),
    "C13-a": ("ledger/acctonline.go: key valid through voteRnd counted as expired in the unflushed overlay", ""),
    "C14-a": ("ledger/catchpointtracker.go: deleting an EMPTY box across a flush boundary leaves its trie leaf",
              "generator: a quarter of created boxes are empty (boundary value); C14 runs use the box-heavy workload"),
    "C16-a": ("ledger/catchupaccessor.go: split-account data only compared with the immediate predecessor",
              "tamper class `partial-record-shadows-account` now inserts 1-3 leading pieces (was 1) - strengthened after reading the author's description, before the first evaluation"),
    "C17-a": ("crypto/merkletrie/cache.go: deleteNode no longer marks the cache modified", ""),
    "C18-a": ("ledgercore/totals.go: reward units counted from money incl. pending rewards", ""),
    "C19-a": ("ledger/eval: a rejected group's bytes stay in the block's load", ""),
    "C20-a": ("ledger/eval/prefetcher: creator's local state not loaded -> Validate differs from assembly", ""),
    "C21-a": ("ledger/eval/applications.go: box deletion refunds 11 bytes too many", ""),
    "C22-a": ("ledger/apply/asset.go: close-to-self destroys asset units", ""),
    "C23-a": ("logic/box.go: resize to 0 leaves a phantom box in the counters", ""),
    "C24-a": ("ledger/eval: proposer payout counts the block's fees twice against a drained fee sink", ""),
    "C26-a": ("bookkeeping/block.go: PreCheck skips the upgrade-state check for 'no vote, state copied' headers", ""),
    "C27-a": ("ledger/eval: a NotParticipating account may be marked absent", "workload mode in which the eligible whale later opts out of participation; tamper variant `absent-nonparticipating-but-silent`; runs with the rewards pool at its minimum (rate 0), where no unrelated money check masks the list check"),
    "C28-a": ("verify/verifiedTxnCache.go: cached verdict reused for the same txid with AuthAddr stripped",
              "new block-level forgery in obs_auth_block.go: look-alike goes through verify.TxnGroup with the ledger's cache, then the forged block is offered to Ledger.Validate"),
    "C29-a": ("catchup/service.go: contents check skipped when the header hash was seen before", "C29's check had no catchup path: it now runs catchupsim as a second engine (the C30 check caught the change from the start)"),
    "C30-a": ("catchup/service.go: contents check skipped for an empty payset", ""),
    "C36-a": ("crypto/onetimesig: old round stays signable after key advance",
              "advance-past-end sequence added (an earlier version of the check would have missed it)"),
    "C42-a": ("network: per-connection vote-compression tables sized from the local config instead of the negotiated size", ""),
    "C43-a": ("network: per-tag size check skipped when the last chunk arrives together with io.EOF", ""),
    "C44-a": ("data/pools: remembered and pending slices share a backing array", ""),
    "C46-a": ("kmd sqlite wallet driver: stale max-key-index after skipping an imported key", ""),
    "C47-a": ("generickv: txtail delete-before-insert differs from SQLite on a wide flush", "storesim commits were at most 3 rounds wide: one commit in eight now spans 4-10 rounds (wider than the txtail horizon)"),
    "C01-b": ("agreement/player.go certThreshold: falls back to the locally staged value when the certificate is from another period (commits W under a certificate for V)", "none: C01 (two digests for one round) did not reach it in 450 runs - it needs one node alone staging W while a later period certifies V - but the block/certificate mismatch it produces is exactly what C03's commit oracle checks, and the C03 check catches it"),
    "C02-b": ("agreement/actions.go checkpointAction: a persist ERROR is dropped if the vote task is not yet waiting (votes leave with nothing on disk)", "two additions: write faults on the crash DB (an injected BEFORE INSERT trigger makes every persist fail, old data stays) and 'persist first' runs in which the verification pool waits for the persists (the other legal order of the two concurrent activities)"),
    "C03-b": ("agreement/voteTracker.go: an equivocator's stale vote stays in the stored vote set (bundle lists it twice)", ""),
    "C08-b": ("ledger/lruaccts.go: a cached 'deleted' placeholder is replaced by a stale row read (closed account resurrected in the cache)", "sparse-query runs: in half of the C08 runs three steps in four ask ONE sampled question instead of 2-12, so that what an earlier (historical) answer left in the caches is not repaired at once by the following lookups"),
    "C09-b": ("ledger/blockqueue.go: notifyCommit announces the newest QUEUED round as committed (Wait() confirms unflushed blocks)", "durability probe in the backlog scenario: with two blocks queued behind a stopped syncer, whatever Ledger.Wait confirms must survive a crash at that instant"),
    "C11-b": ("ledger/eval/cow.go checkDup: an in-block lease that expires in the block's own round counts as expired", ""),
    "C16-b": ("sqlitedriver/catchpoint.go: ResetCatchpointStagingBalances no longer drops catchpointbalances (rows of a failed attempt survive the retry)", ""),
    "C44-b": ("ledger/eval/cow.go checkDup (same line as C11-b, found independently): pending lease treated as expired one round early", "the pool oracle replayed the pending groups on the same (changed) evaluator; added an oracle that does not use it: no two pending transactions of one sender under one lease"),
    "C12-a": ("ledgercore/totals.go: reward units counted from money incl. pending rewards (same edit as C18-a, found independently)", "none: the first evaluation ran only 31 runs on a fully loaded machine; with 150 s it is caught by the generic totals oracle"),
}

rows = []
for d in sorted(glob.glob("/verif/seeded/*/meta.json")):
    m = json.load(open(d))
    name = m["name"]
    hist = m.get("history", [])
    first = hist[0]["checks"] if hist else m.get("checks", {})
    last = m.get("checks", {})

    def fmt(c):
        return ", ".join("%s:%s" % (k, v.get("verdict", "?")) for k, v in sorted(c.items())) or "-"
    demo = m.get("demo_confirmed")
    what, strengthened = WHAT.get(name, ("", ""))
    oracle = ""
    for k, v in sorted(last.items()):
        if v.get("verdict") == "CAUGHT" and v.get("violation"):
            mm = re.match(r"violation: ([^/]+)/", v["violation"][0])
            if mm:
                oracle = "%s `%s`" % (k, mm.group(1).strip())
    rows.append("| %s | %s | %s | %s | %s | %s | %s |" % (name, what, {True: "yes", False: "NO", None: "?"}[demo], fmt(first), fmt(last), oracle, strengthened or "-"))
print("| seeded change | what it does | demo confirmed both ways | first evaluation | current | caught by (oracle) | strengthening it needed |")
print("|---|---|---|---|---|---|---|")
print("\n".join(rows))
