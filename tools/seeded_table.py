#!/usr/bin/env python3
"""Prints the markdown table of seeded (independently authored) breaking changes and which checks caught them."""
import json, glob, os
rows = []
for d in sorted(glob.glob("/verif/seeded/*/meta.json")):
    m = json.load(open(d))
    name = m["name"]
    hist = m.get("history", [])
    first = hist[0]["checks"] if hist else m.get("checks", {})
    last = m.get("checks", {})
    def fmt(c):
        return ", ".join("%s:%s" % (k, v.get("verdict", "?")) for k, v in sorted(c.items())) or "-"
    demo = m.get("demo_confirmed")
    rows.append("| %s | %s | %s | %s | %s |" % (name, m.get("breaks_property"), {True: "yes", False: "NO", None: "?"}[demo], fmt(first), fmt(last)))
print("| seeded change | breaks | demo confirmed | first evaluation | after strengthening (current) |")
print("|---|---|---|---|---|")
print("\n".join(rows))
