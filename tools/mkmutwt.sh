#!/bin/bash
# Creates a scratch git worktree of /repo for an independent breaking-change author:
# /tmp/mut/<name>, with the hand-built libsodium placed at the (git-ignored) path the cgo
# directives expect, so that every package builds and its unit tests run there.
set -euo pipefail
name=$1
d=/tmp/mut/$name
mkdir -p /tmp/mut
git -C /repo worktree add -q --detach "$d" HEAD
mkdir -p "$d/crypto/libs/linux/amd64"
cp -r /verif/build/libsodium/lib /verif/build/libsodium/include "$d/crypto/libs/linux/amd64/"
echo "$d"
