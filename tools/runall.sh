#!/bin/bash
# Runs every registered quick (or thorough) command of MANIFEST.json in turn and prints one line per property.
# usage: tools/runall.sh [quick|thorough] [ID ...]
cd "$(dirname "$0")/.."
tier=${1:-quick}; shift || true
ids="$@"
if [ -z "$ids" ]; then ids=$(python3 -c "import json;print(' '.join(c['property_id'] for c in json.load(open('MANIFEST.json'))['checks']))"); fi
export GOFLAGS=-mod=mod GOPROXY=off
mkdir -p build/logs
for id in $ids; do
  t0=$(date +%s)
  ./check $id --tier $tier > build/logs/runall-$id.log 2>&1
  rc=$?
  echo "$id exit=$rc $(( $(date +%s) - t0 ))s $(grep -c '^KNOWN-FINDING' build/logs/runall-$id.log) known; $(tail -n 1 build/logs/runall-$id.log | cut -c1-160)"
done
