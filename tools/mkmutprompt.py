#!/usr/bin/env python3
"""usage: tools/mkmutprompt.py <PROP-ID> <name>  -> creates worktree /tmp/mut/<name> and prints the prompt for a
fresh sub-agent (property text only; nothing from /verif)."""
import json, subprocess, sys
pid, name = sys.argv[1], sys.argv[2]
prop = None
for l in open("/verif/properties.jsonl"):
    d = json.loads(l)
    if d["id"] == pid:
        prop = d
q = prop.get("quantifier", {})
text = "%s — %s\n\n%s\n\nQuantified over: %s — %s\n\nCode it is anchored in: %s" % (
    pid, prop["title"], prop["statement"], ", ".join(q.get("over", [])), q.get("text", ""), ", ".join(prop.get("anchors", {}).get("files", [])))
subprocess.run(["/verif/tools/mkmutwt.sh", name], check=True, stdout=subprocess.DEVNULL)
tmpl = open("/verif/tools/mutprompt.template").read()
head, rest = tmpl.split("---\n", 1)
_, tail = rest.split("\n---\n", 1)
out = (head + "---\n" + text + "\n\n---\n" + tail).replace("C01-a", name).replace("(stash/unstash or `git diff", "(do NOT use git stash - the stash is shared between worktrees; use `git diff")
open("/tmp/mut/%s.prompt" % name, "w").write(out)
print(out)
