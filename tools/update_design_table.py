#!/usr/bin/env python3
"""Regenerates the seeded-change table inside DESIGN.md (between the SEEDED-TABLE markers)."""
import subprocess, re
t = subprocess.check_output(["python3", "/verif/tools/seeded_table.py"]).decode()
p = "/verif/DESIGN.md"
s = open(p).read()
s = re.sub(r"<!-- SEEDED-TABLE-BEGIN -->.*?<!-- SEEDED-TABLE-END -->", lambda m: "<!-- SEEDED-TABLE-BEGIN -->\n" + t + "<!-- SEEDED-TABLE-END -->", s, flags=re.S)
open(p, "w").write(s)
