#!/usr/bin/env python3
"""Evaluate an independently authored breaking change (seeded mutation).

usage: tools/evalmut.py <name> <breaks-prop> [--check PROP ...] [--budget S] [--nproc N]

<name> is a worktree /tmp/mut/<name> prepared by tools/mkmutwt.sh in which a sub-agent left
MUTATION/patch.diff, a demonstration test (untracked *_test.go files or MUTATION/demo*), NOTES.md.
Steps (all in a FRESH scratch worktree of /repo's current HEAD, removed afterwards):
 1. the patch applies; the touched packages build;
 2. the demonstration FAILS with the patch and PASSES without it;
 3. the named checks are run against the patched tree (VERIF_REPO) and their verdicts recorded;
 4. everything is stored under /verif/seeded/<name>/ (patch.diff, demo, NOTES.md, meta.json).
"""
import argparse, json, os, re, shutil, subprocess, sys, hashlib, glob, time

V = "/verif"
ENV = dict(os.environ, GOFLAGS="-mod=mod", GOPROXY="off")
ENV.pop("GOTOOLCHAIN", None)
ENV.pop("GOSUMDB", None)


def sh(cmd, cwd=None, env=None, timeout=3600):
    r = subprocess.run(cmd, cwd=cwd, env=env or ENV, capture_output=True, text=True, timeout=timeout)
    return r.returncode, r.stdout + r.stderr


def main():
    ap = argparse.ArgumentParser()
    ap.add_argument("name")
    ap.add_argument("breaks")
    ap.add_argument("--check", nargs="*", default=None)
    ap.add_argument("--budget", type=int, default=60)
    ap.add_argument("--nproc", type=int, default=8)
    ap.add_argument("--skip-demo", action="store_true")
    a = ap.parse_args()
    src = "/tmp/mut/" + a.name
    patch = os.path.join(src, "MUTATION", "patch.diff")
    if not os.path.exists(patch):
        sys.exit("no patch at " + patch)
    checks = a.check if a.check else [a.breaks]
    ev = "/tmp/mutev/" + a.name
    os.makedirs("/tmp/mutev", exist_ok=True)
    subprocess.run(["git", "-C", "/repo", "worktree", "remove", "--force", ev], capture_output=True)
    subprocess.run(["git", "-C", "/repo", "worktree", "add", "-q", "--detach", ev, "HEAD"], check=True)
    meta = {"name": a.name, "breaks_property": a.breaks, "base_commit": subprocess.check_output(["git", "-C", "/repo", "rev-parse", "--short", "HEAD"]).decode().strip(),
            "ran": [], "checks": {}}
    try:
        os.makedirs(ev + "/crypto/libs/linux/amd64", exist_ok=True)
        for d in ("lib", "include"):
            shutil.copytree(V + "/build/libsodium/" + d, ev + "/crypto/libs/linux/amd64/" + d)
        rc, out = sh(["git", "apply", "--check", patch], cwd=ev)
        if rc != 0:
            rc3, out3 = sh(["git", "apply", "--3way", patch], cwd=ev)
            if rc3 != 0:
                meta["patch_applies"] = False
                print("PATCH DOES NOT APPLY on current HEAD:\n" + out + out3)
                return finish(a, src, meta, patch)
            sh(["git", "reset", "-q"], cwd=ev)
        else:
            sh(["git", "apply", patch], cwd=ev)
        meta["patch_applies"] = True
        touched = sorted({os.path.dirname(l[6:].strip()) for l in open(patch) if l.startswith("+++ b/")})
        meta["touched_packages"] = touched
        # demonstration files: untracked test files in the author's worktree (outside MUTATION/)
        rc, out = sh(["git", "status", "--porcelain"], cwd=src)
        demos = [l[3:].strip() for l in out.splitlines() if l.startswith("??") and l[3:].strip().endswith("_test.go")]
        meta["demo_files"] = demos
        demo_ok = None
        if demos and not a.skip_demo:
            for d in demos:
                os.makedirs(os.path.dirname(os.path.join(ev, d)), exist_ok=True)
                shutil.copy(os.path.join(src, d), os.path.join(ev, d))
            results = {}
            for phase in ("with_patch", "without_patch"):
                if phase == "without_patch":
                    sh(["git", "apply", "-R", patch], cwd=ev)
                res = []
                for d in demos:
                    names = re.findall(r"^func (Test\w+)\(", open(os.path.join(ev, d)).read(), re.M)
                    pkg = "./" + os.path.dirname(d) + "/"
                    cmd = ["go", "test", "-p", "4", pkg, "-run", "^(" + "|".join(names) + ")$", "-count=1"]
                    t0 = time.time()
                    rc, o = sh(cmd, cwd=ev, timeout=3000)
                    res.append({"cmd": " ".join(cmd), "exit": rc, "tail": o[-1500:], "secs": round(time.time() - t0)})
                    meta["ran"].append(" ".join(cmd) + " (" + phase + ") -> exit %d" % rc)
                results[phase] = res
            sh(["git", "apply", patch], cwd=ev)  # re-apply for the checks
            fails_with = all(r["exit"] != 0 for r in results["with_patch"])
            passes_without = all(r["exit"] == 0 for r in results["without_patch"])
            demo_ok = fails_with and passes_without
            meta["demo"] = {"fails_with_patch": fails_with, "passes_without_patch": passes_without, "detail": results}
            print("demo: fails with patch = %s, passes without = %s" % (fails_with, passes_without))
            for d in demos:
                os.remove(os.path.join(ev, d))
        meta["demo_confirmed"] = demo_ok
        # run the checks against the patched tree
        for prop in checks:
            env = dict(ENV, VERIF_REPO=ev, VERIF_NPROC=str(a.nproc))
            t0 = time.time()
            r = subprocess.run([V + "/check", prop, "--budget", str(a.budget), "--no-evidence"], env=env, cwd=V, capture_output=True, text=True)
            verdict = {0: "MISSED", 1: "CAUGHT", 2: "HARNESS/BUILD"}.get(r.returncode, str(r.returncode))
            viol = [l for l in r.stdout.splitlines() if l.startswith("violation:")][:2]
            summ = [l for l in r.stdout.splitlines() if l.strip()][-1:]
            meta["checks"][prop] = {"verdict": verdict, "violation": viol, "summary": summ, "secs": round(time.time() - t0)}
            meta["ran"].append("VERIF_REPO=<patched worktree> ./check %s --budget %d --no-evidence -> %s" % (prop, a.budget, verdict))
            print("check %s: %s %s" % (prop, verdict, viol[0][:300] if viol else (summ[0] if summ else "")))
            if verdict == "HARNESS/BUILD":
                print(r.stdout[-2500:])
        alt = os.path.join(V, "build", "alt-" + hashlib.md5(ev.encode()).hexdigest()[:10])
        shutil.rmtree(alt, ignore_errors=True)
        return finish(a, src, meta, patch)
    finally:
        subprocess.run(["git", "-C", "/repo", "worktree", "remove", "--force", ev], capture_output=True)


def finish(a, src, meta, patch):
    dst = os.path.join(V, "seeded", a.name)
    os.makedirs(dst, exist_ok=True)
    oldp = os.path.join(dst, "meta.json")
    vcommit = subprocess.check_output(["git", "-C", V, "rev-parse", "--short", "HEAD"]).decode().strip()
    entry = {"verif_commit": vcommit, "checks": meta.get("checks", {})}
    if os.path.exists(oldp):
        old = json.load(open(oldp))
        meta["history"] = old.get("history", [{"verif_commit": "(earlier)", "checks": old.get("checks", {})}])
        if meta.get("demo_confirmed") is None:
            for k in ("demo", "demo_confirmed", "demo_files"):
                if old.get(k) is not None:
                    meta[k] = old[k]
            meta["ran"] = old.get("ran", []) + meta.get("ran", [])
    else:
        meta["history"] = []
    meta["history"].append(entry)
    shutil.copy(patch, os.path.join(dst, "patch.diff"))
    for f in glob.glob(os.path.join(src, "MUTATION", "*")):
        if os.path.basename(f) != "patch.diff" and os.path.isfile(f):
            shutil.copy(f, dst)
    notes = os.path.join(src, "MUTATION", "NOTES.md")
    if os.path.exists(notes):
        txt = open(notes).read()
        m = re.search(r"(?is)(needs|manifest|trigger)[^\n]*\n(.{0,900})", txt)
        meta["needs_to_manifest"] = (m.group(0)[:900] if m else txt[:600])
    json.dump(meta, open(os.path.join(dst, "meta.json"), "w"), indent=1)
    print("stored under", dst)
    return 0


if __name__ == "__main__":
    sys.exit(main())
