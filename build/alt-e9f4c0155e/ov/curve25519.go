// Copyright (C) 2019-2026 Algorand Foundation Ltd.
// This file is part of go-algorand
//
// go-algorand is free software: you can redistribute it and/or modify
// it under the terms of the GNU Affero General Public License as
// published by the Free Software Foundation, either version 3 of the
// License, or (at your option) any later version.
//
// go-algorand is distributed in the hope that it will be useful,
// but WITHOUT ANY WARRANTY; without even the implied warranty of
// MERCHANTABILITY or FITNESS FOR A PARTICULAR PURPOSE.  See the
// GNU Affero General Public License for more details.
//
// You should have received a copy of the GNU Affero General Public License
// along with go-algorand.  If not, see <https://www.gnu.org/licenses/>.

package crypto

// #cgo CFLAGS: -Wall -std=c99
// #cgo darwin,amd64 CFLAGS: -I${SRCDIR}/libs/darwin/amd64/include
// #cgo darwin,amd64 LDFLAGS: ${SRCDIR}/libs/darwin/amd64/lib/libsodium.a
// #cgo darwin,arm64 CFLAGS: -I${SRCDIR}/libs/darwin/arm64/include
// #cgo darwin,arm64 LDFLAGS: ${SRCDIR}/libs/darwin/arm64/lib/libsodium.a
// #cgo linux,amd64 CFLAGS: -I/verif/build/alt-e9f4c0155e/libsodium/include
// #cgo linux,amd64 LDFLAGS: /verif/build/alt-e9f4c0155e/libsodium/lib/libsodium.a
// #cgo linux,arm64 CFLAGS: -I${SRCDIR}/libs/linux/arm64/include
// #cgo linux,arm64 LDFLAGS: ${SRCDIR}/libs/linux/arm64/lib/libsodium.a
// #cgo linux,arm CFLAGS: -I${SRCDIR}/libs/linux/arm/include
// #cgo linux,arm LDFLAGS: ${SRCDIR}/libs/linux/arm/lib/libsodium.a
// #cgo linux,riscv64 CFLAGS: -I${SRCDIR}/libs/linux/riscv64/include
// #cgo linux,riscv64 LDFLAGS: ${SRCDIR}/libs/linux/riscv64/lib/libsodium.a
// #cgo windows,amd64 CFLAGS: -I${SRCDIR}/libs/windows/amd64/include
// #cgo windows,amd64 LDFLAGS: ${SRCDIR}/libs/windows/amd64/lib/libsodium.a
// #include <stdint.h>
// #include "sodium.h"
import "C"

import (
	"fmt"
	"unsafe"

	"filippo.io/edwards25519"

	"github.com/algorand/go-algorand/logging"
	"github.com/algorand/go-algorand/util/metrics"
)

// TODO: Remove metrics from crypto package
var cryptoVRFGenerateTotal = metrics.MakeCounter(metrics.CryptoVRFGenerateTotal)
var cryptoVRFProveTotal = metrics.MakeCounter(metrics.CryptoVRFProveTotal)
var cryptoVRFHashTotal = metrics.MakeCounter(metrics.CryptoVRFHashTotal)
var cryptoVRFVerifyTotal = metrics.MakeCounter(metrics.CryptoVRFVerifyTotal)
var cryptoGenSigSecretsTotal = metrics.MakeCounter(metrics.CryptoGenSigSecretsTotal)
var cryptoSigSecretsSignTotal = metrics.MakeCounter(metrics.CryptoSigSecretsSignTotal)
var cryptoSigSecretsSignBytesTotal = metrics.MakeCounter(metrics.CryptoSigSecretsSignBytesTotal)
var cryptoSigSecretsVerifyTotal = metrics.MakeCounter(metrics.CryptoSigSecretsVerifyTotal)
var cryptoSigSecretsVerifyBytesTotal = metrics.MakeCounter(metrics.CryptoSigSecretsVerifyBytesTotal)

const masterDerivationKeyLenBytes = 32

func init() {
	if C.sodium_init() < 0 {
		logging.Init()
		logging.Base().Fatal("failed to initialize libsodium!")
	}

	// Check sizes of structs
	_ = [C.crypto_sign_ed25519_BYTES]byte(ed25519Signature{})
	_ = [C.crypto_sign_ed25519_PUBLICKEYBYTES]byte(ed25519PublicKey{})
	_ = [C.crypto_sign_ed25519_SECRETKEYBYTES]byte(ed25519PrivateKey{})
	_ = [C.crypto_sign_ed25519_SEEDBYTES]byte(ed25519Seed{})

	// Check that this platform makes slices []Signature and []SignatureVerifier that use a backing
	// array of contiguously allocated 64- and 32-byte segments, respectively, with no padding.
	// These slice's backing arrays are passed to C.ed25519_batch_wrapper. In practice, this check
	// should always succeed, but to be careful we can double-check, since the Go specification does
	// not explicitly define platform-specific alignment sizes and slice allocation behavior.
	length := 1024
	sigs := make([]Signature, length)        // same as [][64]byte
	pks := make([]SignatureVerifier, length) // same as [][32]byte

	for i := 1; i < length; i++ {
		if uintptr(unsafe.Pointer(&sigs[i]))-uintptr(unsafe.Pointer(&sigs[0])) != uintptr(i)*C.crypto_sign_ed25519_BYTES {
			panic("Unexpected alignment for a slice of signatures")
		}
		if uintptr(unsafe.Pointer(&pks[i]))-uintptr(unsafe.Pointer(&pks[0])) != uintptr(i)*C.crypto_sign_ed25519_PUBLICKEYBYTES {
			panic("Unexpected alignment for a slice of public keys")
		}
	}
	if uintptr(unsafe.Pointer(&sigs[length-1]))-uintptr(unsafe.Pointer(&sigs[0])) != uintptr(length-1)*C.crypto_sign_ed25519_BYTES {
		panic("Unexpected total size for a backing array of signatures")
	}
	if uintptr(unsafe.Pointer(&pks[length-1]))-uintptr(unsafe.Pointer(&pks[0])) != uintptr(length-1)*C.crypto_sign_ed25519_PUBLICKEYBYTES {
		panic("Unexpected total size for a backing array of public keys")
	}
}

// A Seed holds the entropy needed to generate cryptographic keys.
type Seed ed25519Seed

/* Classical signatures */
type ed25519Signature [64]byte
type ed25519PublicKey [32]byte
type ed25519PrivateKey [64]byte
type ed25519Seed [32]byte

// MasterDerivationKey is used to derive ed25519 keys for use in wallets
type MasterDerivationKey [masterDerivationKeyLenBytes]byte

// PrivateKey is an exported ed25519PrivateKey
type PrivateKey ed25519PrivateKey

// PublicKey is an exported ed25519PublicKey
type PublicKey ed25519PublicKey

// IsEdwards25519Point reports whether encoded can be decoded as an
// Edwards25519 curve point. This follows edwards25519.Point.SetBytes decoding,
// which accepts some non-canonical encodings of curve points. It does not
// check membership in the prime-order subgroup and should not be used as a
// strict Ed25519 public-key validity check. Note that this predicate differs
// from libsodium's crypto_core_ed25519_is_valid_point, which also requires
// main-subgroup membership.
func IsEdwards25519Point(encoded []byte) bool {
	_, err := new(edwards25519.Point).SetBytes(encoded)
	return err == nil
}

func ed25519GenerateKey() (public ed25519PublicKey, secret ed25519PrivateKey) {
	var seed ed25519Seed
	RandBytes(seed[:])
	return ed25519GenerateKeySeed(seed)
}

func ed25519GenerateKeyRNG(rng RNG) (public ed25519PublicKey, secret ed25519PrivateKey) {
	var seed ed25519Seed
	rng.RandBytes(seed[:])
	return ed25519GenerateKeySeed(seed)
}

func ed25519GenerateKeySeed(seed ed25519Seed) (public ed25519PublicKey, secret ed25519PrivateKey) {
	C.crypto_sign_ed25519_seed_keypair((*C.uchar)(&public[0]), (*C.uchar)(&secret[0]), (*C.uchar)(&seed[0]))
	return
}

func ed25519Sign(secret ed25519PrivateKey, data []byte) (sig ed25519Signature) {
	// &data[0] will make Go panic if msg is zero length
	d := (*C.uchar)(C.NULL)
	if len(data) != 0 {
		d = (*C.uchar)(&data[0])
	}
	// https://download.libsodium.org/doc/public-key_cryptography/public-key_signatures#detached-mode
	C.crypto_sign_ed25519_detached((*C.uchar)(&sig[0]), (*C.ulonglong)(C.NULL), d, C.ulonglong(len(data)), (*C.uchar)(&secret[0]))
	return
}

func ed25519Verify(public ed25519PublicKey, data []byte, sig ed25519Signature) bool {
	// &data[0] will make Go panic if msg is zero length
	d := (*C.uchar)(C.NULL)
	if len(data) != 0 {
		d = (*C.uchar)(&data[0])
	}
	// https://download.libsodium.org/doc/public-key_cryptography/public-key_signatures#detached-mode
	result := C.crypto_sign_ed25519_bv_compatible_verify_detached((*C.uchar)(&sig[0]), d, C.ulonglong(len(data)), (*C.uchar)(&public[0]))
	return result == 0
}

// A Signature is a cryptographic signature. It proves that a message was
// produced by a holder of a cryptographic secret.
type Signature ed25519Signature

// BlankSignature is an empty signature structure, containing nothing but zeroes
var BlankSignature = Signature{}

// Blank tests to see if the given signature contains only zeros
func (s *Signature) Blank() bool {
	return (*s) == BlankSignature
}

// A SignatureVerifier is used to identify the holder of SignatureSecrets
// and verify the authenticity of Signatures.
type SignatureVerifier = PublicKey

// SignatureSecrets are used by an entity to produce unforgeable signatures over
// a message.
type SignatureSecrets struct {
	_struct struct{} `codec:""`

	SignatureVerifier
	SK ed25519PrivateKey
}

// SecretKeyToSignatureSecrets converts a private key into a SignatureSecrets and
// returns a pointer
func SecretKeyToSignatureSecrets(sk PrivateKey) (secrets *SignatureSecrets, err error) {
	pk, err := SecretKeyToPublicKey(sk)
	if err != nil {
		return
	}
	secrets = &SignatureSecrets{
		SignatureVerifier: SignatureVerifier(pk),
		SK:                ed25519PrivateKey(sk),
	}
	return
}

// SecretKeyToPublicKey derives a public key from a secret key. This is very
// efficient since ed25519 private keys literally contain their public key
func SecretKeyToPublicKey(secret PrivateKey) (PublicKey, error) {
	var pk PublicKey
	result := C.crypto_sign_ed25519_sk_to_pk((*C.uchar)(&pk[0]), (*C.uchar)(&secret[0]))
	if result != 0 {
		return pk, fmt.Errorf("failed to extract public key: %d", result)
	}
	return pk, nil
}

// SecretKeyToSeed derives the seed from a secret key. This is very efficient
// since ed25519 private keys literally contain their seed
func SecretKeyToSeed(secret PrivateKey) (Seed, error) {
	var seed Seed
	result := C.crypto_sign_ed25519_sk_to_seed((*C.uchar)(&seed[0]), (*C.uchar)(&secret[0]))
	if result != 0 {
		return seed, fmt.Errorf("failed to extract seed: %d", result)
	}
	return seed, nil
}

// GenerateSignatureSecrets creates SignatureSecrets from a source of entropy.
func GenerateSignatureSecrets(seed Seed) *SignatureSecrets {
	pk0, sk := ed25519GenerateKeySeed(ed25519Seed(seed))
	pk := SignatureVerifier(pk0)
	cryptoGenSigSecretsTotal.Inc(nil)
	return &SignatureSecrets{SignatureVerifier: pk, SK: sk}
}

// Sign produces a cryptographic Signature of a Hashable message, given
// cryptographic secrets.
func (s *SignatureSecrets) Sign(message Hashable) Signature {
	cryptoSigSecretsSignTotal.Inc(nil)
	return s.SignBytes(HashRep(message))
}

// SignBytes signs a message directly, without first hashing.
// Caller is responsible for domain separation.
func (s *SignatureSecrets) SignBytes(message []byte) Signature {
	cryptoSigSecretsSignBytesTotal.Inc(nil)
	return Signature(ed25519Sign(ed25519PrivateKey(s.SK), message))
}

// Verify verifies that some holder of a cryptographic secret authentically
// signed a Hashable message.
//
// It returns true if this is the case; otherwise, it returns false.
func (v SignatureVerifier) Verify(message Hashable, sig Signature) bool {
	cryptoSigSecretsVerifyTotal.Inc(nil)
	return ed25519Verify(ed25519PublicKey(v), HashRep(message), ed25519Signature(sig))
}

// VerifyBytes verifies a signature, where the message is not hashed first.
// Caller is responsible for domain separation.
// If the message is a Hashable, Verify() can be used instead.
func (v SignatureVerifier) VerifyBytes(message []byte, sig Signature) bool {
	cryptoSigSecretsVerifyBytesTotal.Inc(nil)
	return ed25519Verify(ed25519PublicKey(v), message, ed25519Signature(sig))
}
