import json,glob,sys
D=sys.argv[1]
for wf in sorted(glob.glob(D+'/worker-*.json')):
    w=json.load(open(wf))
    print({k:w[k] for k in ['evaluations','distinct_states','steps','wall_s','harness_error'] if k in w}, len(w['nontrivial_digests']))
for f in glob.glob(D+'/violation*.json'):
    r=json.load(open(f))
    print(f)
    print(r['violation'])
    print('\n'.join(r['event_log_tail']))
