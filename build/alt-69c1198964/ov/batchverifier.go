// Copyright (C) 2019-2026 Algorand Foundation Ltd.
// This file is part of go-algorand
//
// go-algorand is free software: you can redistribute it and/or modify
// it under the terms of the GNU Affero General Public License as
// published by the Free Software Foundation, either version 3 of the
// License, or (at your option) any later version.
//
// go-algorand is distributed in the hope that it will be useful,
// but WITHOUT ANY WARRANTY; without even the implied warranty of
// MERCHANTABILITY or FITNESS FOR A PARTICULAR PURPOSE.  See the
// GNU Affero General Public License for more details.
//
// You should have received a copy of the GNU Affero General Public License
// along with go-algorand.  If not, see <https://www.gnu.org/licenses/>.

package crypto

// #cgo CFLAGS: -Wall -std=c99
// #cgo darwin,amd64 CFLAGS: -I${SRCDIR}/libs/darwin/amd64/include
// #cgo darwin,arm64 CFLAGS: -I${SRCDIR}/libs/darwin/arm64/include
// #cgo linux,amd64 CFLAGS: -I/verif/build/alt-69c1198964/libsodium/include
// #cgo linux,arm64 CFLAGS: -I${SRCDIR}/libs/linux/arm64/include
// #cgo linux,arm CFLAGS: -I${SRCDIR}/libs/linux/arm/include
// #cgo linux,riscv64 CFLAGS: -I${SRCDIR}/libs/linux/riscv64/include
// #cgo windows,amd64 CFLAGS: -I${SRCDIR}/libs/windows/amd64/include
// #include <stdint.h>
// enum {
//	sizeofPtr = sizeof(void*),
//	sizeofULongLong = sizeof(unsigned long long),
// };
// int ed25519_batch_wrapper(const unsigned char **messages2D,
//                           const unsigned char **publicKeys2D,
//                           const unsigned char **signatures2D,
//                           const unsigned char *messages1D,
//                           const unsigned long long *mlen,
//                           const unsigned char *publicKeys1D,
//                           const unsigned char *signatures1D,
//                           size_t num,
//                           int *valid_p);
import "C"

import (
	"errors"
	"unsafe"
)

// BatchEnqueuer enqueues signatures to be validated in a batch.
type BatchEnqueuer interface {
	EnqueueSignature(sigVerifier SignatureVerifier, message Hashable, sig Signature)
}

// BatchVerifier enqueues and validates signatures in a batch.
type BatchVerifier interface {
	BatchEnqueuer
	GetNumberOfEnqueuedSignatures() int
	Verify() error
	VerifyWithFeedback() (failed []bool, err error)
}

type cgoBatchVerifier struct {
	messages   []Hashable          // contains a slice of messages to be hashed. Each message is varible length
	publicKeys []SignatureVerifier // contains a slice of public keys. Each individual public key is 32 bytes.
	signatures []Signature         // contains a slice of signatures keys. Each individual signature is 64 bytes.
	useSingle  bool
}

// Batch verifications errors
var (
	ErrBatchHasFailedSigs = errors.New("At least one signature didn't pass verification")
)

//export ed25519_randombytes_unsafe
func ed25519_randombytes_unsafe(p unsafe.Pointer, len C.size_t) {
	randBuf := (*[1 << 30]byte)(p)[:len:len]
	RandBytes(randBuf)
}

const minBatchVerifierAlloc = 16
const useSingleVerifierDefault = true

// ed25519BatchVerifierFactory is the global singleton used for batch signature verification.
// By default it uses the libsodium implementation. This can be changed during initialization
// (e.g., by the config package when algod loads) to use the ed25519consensus implementation.
var ed25519BatchVerifierFactory func(hint int) BatchVerifier = makeLibsodiumBatchVerifier

// SetEd25519BatchVerifier allows the config package to switch the implementation
// at startup based on configuration. Pass true to use ed25519consensus, false for libsodium.
func SetEd25519BatchVerifier(useEd25519Consensus bool) {
	if useEd25519Consensus {
		ed25519BatchVerifierFactory = makeEd25519ConsensusBatchVerifier
	} else {
		ed25519BatchVerifierFactory = makeLibsodiumBatchVerifier
	}
}

// MakeBatchVerifier creates a BatchVerifier instance.
func MakeBatchVerifier() BatchVerifier {
	return ed25519BatchVerifierFactory(minBatchVerifierAlloc)
}

// MakeBatchVerifierWithHint creates a BatchVerifier instance. This function pre-allocates
// space to enqueue signatures without expanding.
func MakeBatchVerifierWithHint(hint int) BatchVerifier {
	return ed25519BatchVerifierFactory(hint)
}

func makeLibsodiumBatchVerifier(hint int) BatchVerifier {
	// preallocate enough storage for the expected usage. We will reallocate as needed.
	if hint <= 0 {
		hint = minBatchVerifierAlloc
	}
	return &cgoBatchVerifier{
		messages:   make([]Hashable, 0, hint),
		publicKeys: make([]SignatureVerifier, 0, hint),
		signatures: make([]Signature, 0, hint),
		useSingle:  useSingleVerifierDefault,
	}
}

// EnqueueSignature enqueues a signature to be enqueued
func (b *cgoBatchVerifier) EnqueueSignature(sigVerifier SignatureVerifier, message Hashable, sig Signature) {
	// do we need to reallocate ?
	if len(b.messages) == cap(b.messages) {
		b.expand()
	}
	b.messages = append(b.messages, message)
	b.publicKeys = append(b.publicKeys, sigVerifier)
	b.signatures = append(b.signatures, sig)
}

func (b *cgoBatchVerifier) expand() {
	messages := make([]Hashable, len(b.messages), len(b.messages)*2)
	publicKeys := make([]SignatureVerifier, len(b.publicKeys), len(b.publicKeys)*2)
	signatures := make([]Signature, len(b.signatures), len(b.signatures)*2)
	copy(messages, b.messages)
	copy(publicKeys, b.publicKeys)
	copy(signatures, b.signatures)
	b.messages = messages
	b.publicKeys = publicKeys
	b.signatures = signatures
}

// GetNumberOfEnqueuedSignatures returns the number of signatures currently enqueued into the BatchVerifier
func (b *cgoBatchVerifier) GetNumberOfEnqueuedSignatures() int {
	return len(b.messages)
}

// Verify verifies that all the signatures are valid. in that case nil is returned
func (b *cgoBatchVerifier) Verify() error {
	_, err := b.VerifyWithFeedback()
	return err
}

// VerifyWithFeedback verifies that all the signatures are valid.
// if all sigs are valid, nil will be returned for err (failed will have all false)
// if some signatures are invalid, true will be set in failed at the corresponding indexes, and
// ErrBatchVerificationFailed for err
func (b *cgoBatchVerifier) VerifyWithFeedback() (failed []bool, err error) {
	if len(b.messages) == 0 {
		return nil, nil
	}

	if b.useSingle {
		return b.singleVerify()
	}

	const estimatedMessageSize = 64
	msgLengths := make([]uint64, 0, len(b.messages))
	var messages = make([]byte, 0, len(b.messages)*estimatedMessageSize)

	lenWas := 0
	for i := range b.messages {
		messages = HashRepToBuff(b.messages[i], messages)
		msgLengths = append(msgLengths, uint64(len(messages)-lenWas))
		lenWas = len(messages)
	}
	allValid, failed := cgoBatchVerificationImpl(messages, msgLengths, b.publicKeys, b.signatures)
	if allValid {
		return nil, nil
	}
	return failed, ErrBatchHasFailedSigs
}

func (b *cgoBatchVerifier) singleVerify() (failed []bool, err error) {
	failed = make([]bool, len(b.messages))
	var containsFailed bool

	for i := range b.messages {
		failed[i] = !ed25519Verify(ed25519PublicKey(b.publicKeys[i]), HashRep(b.messages[i]), ed25519Signature(b.signatures[i]))
		if failed[i] {
			containsFailed = true
		}
	}
	if containsFailed {
		return failed, ErrBatchHasFailedSigs
	}
	return nil, nil
}

// cgoBatchVerificationImpl invokes the ed25519 batch verification algorithm.
// it returns true if all the signatures were authentically signed by the owners
// otherwise, returns false, and sets the indexes of the failed sigs in failed
func cgoBatchVerificationImpl(messages []byte, msgLengths []uint64, publicKeys []SignatureVerifier, signatures []Signature) (allSigsValid bool, failed []bool) {

	numberOfSignatures := len(msgLengths)
	valid := make([]C.int, numberOfSignatures)
	messages2D := make([]*C.uchar, numberOfSignatures)
	publicKeys2D := make([]*C.uchar, numberOfSignatures)
	signatures2D := make([]*C.uchar, numberOfSignatures)

	// call the batch verifier
	// Use unsafe.SliceData to safely get pointers to underlying arrays
	allValid := C.ed25519_batch_wrapper(
		(**C.uchar)(unsafe.SliceData(messages2D)),
		(**C.uchar)(unsafe.SliceData(publicKeys2D)),
		(**C.uchar)(unsafe.SliceData(signatures2D)),
		(*C.uchar)(unsafe.SliceData(messages)),
		(*C.ulonglong)(unsafe.SliceData(msgLengths)),
		(*C.uchar)(unsafe.SliceData(publicKeys[0][:])),
		(*C.uchar)(unsafe.SliceData(signatures[0][:])),
		C.size_t(numberOfSignatures),
		(*C.int)(unsafe.SliceData(valid)))

	if allValid == 0 { // all signatures valid
		return true, nil
	}

	// not all signatures valid, identify the failed signatures
	failed = make([]bool, numberOfSignatures)
	for i := 0; i < numberOfSignatures; i++ {
		failed[i] = (valid[i] == 0)
	}
	return false, failed
}
