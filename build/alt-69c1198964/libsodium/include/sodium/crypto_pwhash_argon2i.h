#ifndef crypto_pwhash_argon2i_H
#define crypto_pwhash_argon2i_H

#include <limits.h>
#include <stddef.h>
#include <stdint.h>

#include "export.h"

#ifdef __cplusplus
# ifdef __GNUC__
#  pragma GCC diagnostic ignored "-Wlong-long"
# endif
extern "C" {
#endif

#define crypto_pwhash_argon2i_ALG_ARGON2I13 1
SODIUM_EXPORT
int crypto_pwhash_argon2i_alg_argon2i13(void);

#define crypto_pwhash_argon2i_BYTES_MIN 16U
SODIUM_EXPORT
size_t crypto_pwhash_argon2i_bytes_min(void);

#define crypto_pwhash_argon2i_BYTES_MAX SODIUM_MIN(SODIUM_SIZE_MAX, 4294967295U)
SODIUM_EXPORT
size_t crypto_pwhash_argon2i_bytes_max(void);

#define crypto_pwhash_argon2i_PASSWD_MIN 0U
SODIUM_EXPORT
size_t crypto_pwhash_argon2i_passwd_min(void);

#define crypto_pwhash_argon2i_PASSWD_MAX 4294967295U
SODIUM_EXPORT
size_t crypto_pwhash_argon2i_passwd_max(void);

#define crypto_pwhash_argon2i_SALTBYTES 16U
SODIUM_EXPORT
size_t crypto_pwhash_argon2i_saltbytes(void);

#define crypto_pwhash_argon2i_STRBYTES 128U
SODIUM_EXPORT
size_t crypto_pwhash_argon2i_strbytes(void);

#define crypto_pwhash_argon2i_STRPREFIX "$argon2i$"
SODIUM_EXPORT
const char *crypto_pwhash_argon2i_strprefix(void);

#define crypto_pwhash_argon2i_OPSLIMIT_MIN 3U
SODIUM_EXPORT
size_t crypto_pwhash_argon2i_opslimit_min(void);

#define crypto_pwhash_argon2i_OPSLIMIT_MAX 4294967295U
SODIUM_EXPORT
size_t crypto_pwhash_argon2i_opslimit_max(void);

#define crypto_pwhash_argon2i_MEMLIMIT_MIN 8192U
SODIUM_EXPORT
size_t crypto_pwhash_argon2i_memlimit_min(void);

#define crypto_pwhash_argon2i_MEMLIMIT_MAX \
    ((SIZE_MAX >= 4398046510080U) ? 4398046510080U : (SIZE_MAX >= 2147483648U) ? 2147483648U : 32768U)
SODIUM_EXPORT
size_t crypto_pwhash_argon2i_memlimit_max(void);

#define crypto_pwhash_argon2i_OPSLIMIT_INTERACTIVE 4U
SODIUM_EXPORT
size_t crypto_pwhash_argon2i_opslimit_interactive(void);

#define crypto_pwhash_argon2i_MEMLIMIT_INTERACTIVE 33554432U
SODIUM_EXPORT
size_t crypto_pwhash_argon2i_memlimit_interactive(void);

#define crypto_pwhash_argon2i_OPSLIMIT_MODERATE 6U
SODIUM_EXPORT
size_t crypto_pwhash_argon2i_opslimit_moderate(void);

#define crypto_pwhash_argon2i_MEMLIMIT_MODERATE 134217728U
SODIUM_EXPORT
size_t crypto_pwhash_argon2i_memlimit_moderate(void);

#define crypto_pwhash_argon2i_OPSLIMIT_SENSITIVE 8U
SODIUM_EXPORT
size_t crypto_pwhash_argon2i_opslimit_sensitive(void);

#define crypto_pwhash_argon2i_MEMLIMIT_SENSITIVE 536870912U
SODIUM_EXPORT
size_t crypto_pwhash_argon2i_memlimit_sensitive(void);

SODIUM_EXPORT
int crypto_pwhash_argon2i(unsigned char * const out,
                          unsigned long long outlen,
                          const char * const passwd,
                          unsigned long long passwdlen,
                          const unsigned char * const salt,
                          unsigned long long opslimit, size_t memlimit,
                          int alg)
            __attribute__ ((warn_unused_result)) __attribute__ ((nonnull));

SODIUM_EXPORT
int crypto_pwhash_argon2i_str(char out[crypto_pwhash_argon2i_STRBYTES],
                              const char * const passwd,
                              unsigned long long passwdlen,
                              unsigned long long opslimit, size_t memlimit)
            __attribute__ ((warn_unused_result)) __attribute__ ((nonnull));

SODIUM_EXPORT
int crypto_pwhash_argon2i_str_verify(const char str[crypto_pwhash_argon2i_STRBYTES],
                                     const char * const passwd,
                                     unsigned long long passwdlen)
            __attribute__ ((warn_unused_result)) __attribute__ ((nonnull));

SODIUM_EXPORT
int crypto_pwhash_argon2i_str_needs_rehash(const char str[crypto_pwhash_argon2i_STRBYTES],
                                           unsigned long long opslimit, size_t memlimit)
            __attribute__ ((warn_unused_result))  __attribute__ ((nonnull));

#ifdef __cplusplus
}
#endif

#endif
