#ifndef crypto_onetimeauth_H
#define crypto_onetimeauth_H

#include <stddef.h>

#include "crypto_onetimeauth_poly1305.h"
#include "export.h"

#ifdef __cplusplus
# ifdef __GNUC__
#  pragma GCC diagnostic ignored "-Wlong-long"
# endif
extern "C" {
#endif

typedef crypto_onetimeauth_poly1305_state crypto_onetimeauth_state;

SODIUM_EXPORT
size_t  crypto_onetimeauth_statebytes(void);

#define crypto_onetimeauth_BYTES crypto_onetimeauth_poly1305_BYTES
SODIUM_EXPORT
size_t  crypto_onetimeauth_bytes(void);

#define crypto_onetimeauth_KEYBYTES crypto_onetimeauth_poly1305_KEYBYTES
SODIUM_EXPORT
size_t  crypto_onetimeauth_keybytes(void);

#define crypto_onetimeauth_PRIMITIVE "poly1305"
SODIUM_EXPORT
const char *crypto_onetimeauth_primitive(void);

SODIUM_EXPORT
int crypto_onetimeauth(unsigned char *out, const unsigned char *in,
                       unsigned long long inlen, const unsigned char *k)
            __attribute__ ((nonnull));

SODIUM_EXPORT
int crypto_onetimeauth_verify(const unsigned char *h, const unsigned char *in,
                              unsigned long long inlen, const unsigned char *k)
            __attribute__ ((warn_unused_result)) __attribute__ ((nonnull));

SODIUM_EXPORT
int crypto_onetimeauth_init(crypto_onetimeauth_state *state,
                            const unsigned char *key) __attribute__ ((nonnull));

SODIUM_EXPORT
int crypto_onetimeauth_update(crypto_onetimeauth_state *state,
                              const unsigned char *in,
                              unsigned long long inlen)
            __attribute__ ((nonnull));

SODIUM_EXPORT
int crypto_onetimeauth_final(crypto_onetimeauth_state *state,
                             unsigned char *out) __attribute__ ((nonnull));

SODIUM_EXPORT
void crypto_onetimeauth_keygen(unsigned char k[crypto_onetimeauth_KEYBYTES])
            __attribute__ ((nonnull));

#ifdef __cplusplus
}
#endif

#endif
