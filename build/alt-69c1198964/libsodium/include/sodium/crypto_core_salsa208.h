#ifndef crypto_core_salsa208_H
#define crypto_core_salsa208_H

#include <stddef.h>
#include "export.h"

#ifdef __cplusplus
extern "C" {
#endif

#define crypto_core_salsa208_OUTPUTBYTES 64U
SODIUM_EXPORT
size_t crypto_core_salsa208_outputbytes(void)
            __attribute__ ((deprecated));

#define crypto_core_salsa208_INPUTBYTES 16U
SODIUM_EXPORT
size_t crypto_core_salsa208_inputbytes(void)
            __attribute__ ((deprecated));

#define crypto_core_salsa208_KEYBYTES 32U
SODIUM_EXPORT
size_t crypto_core_salsa208_keybytes(void)
            __attribute__ ((deprecated));

#define crypto_core_salsa208_CONSTBYTES 16U
SODIUM_EXPORT
size_t crypto_core_salsa208_constbytes(void)
            __attribute__ ((deprecated));

SODIUM_EXPORT
int crypto_core_salsa208(unsigned char *out, const unsigned char *in,
                         const unsigned char *k, const unsigned char *c)
            __attribute__ ((nonnull(1, 2, 3)));

#ifdef __cplusplus
}
#endif

#endif
