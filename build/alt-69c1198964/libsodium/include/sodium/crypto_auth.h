#ifndef crypto_auth_H
#define crypto_auth_H

#include <stddef.h>

#include "crypto_auth_hmacsha512256.h"
#include "export.h"

#ifdef __cplusplus
# ifdef __GNUC__
#  pragma GCC diagnostic ignored "-Wlong-long"
# endif
extern "C" {
#endif

#define crypto_auth_BYTES crypto_auth_hmacsha512256_BYTES
SODIUM_EXPORT
size_t  crypto_auth_bytes(void);

#define crypto_auth_KEYBYTES crypto_auth_hmacsha512256_KEYBYTES
SODIUM_EXPORT
size_t  crypto_auth_keybytes(void);

#define crypto_auth_PRIMITIVE "hmacsha512256"
SODIUM_EXPORT
const char *crypto_auth_primitive(void);

SODIUM_EXPORT
int crypto_auth(unsigned char *out, const unsigned char *in,
                unsigned long long inlen, const unsigned char *k)
            __attribute__ ((nonnull));

SODIUM_EXPORT
int crypto_auth_verify(const unsigned char *h, const unsigned char *in,
                       unsigned long long inlen, const unsigned char *k)
            __attribute__ ((warn_unused_result)) __attribute__ ((nonnull));

SODIUM_EXPORT
void crypto_auth_keygen(unsigned char k[crypto_auth_KEYBYTES])
            __attribute__ ((nonnull));

#ifdef __cplusplus
}
#endif

#endif
