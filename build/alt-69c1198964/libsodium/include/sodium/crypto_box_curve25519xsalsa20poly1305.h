#ifndef crypto_box_curve25519xsalsa20poly1305_H
#define crypto_box_curve25519xsalsa20poly1305_H

#include <stddef.h>
#include "crypto_stream_xsalsa20.h"
#include "export.h"

#ifdef __cplusplus
# ifdef __GNUC__
#  pragma GCC diagnostic ignored "-Wlong-long"
# endif
extern "C" {
#endif

#define crypto_box_curve25519xsalsa20poly1305_SEEDBYTES 32U
SODIUM_EXPORT
size_t crypto_box_curve25519xsalsa20poly1305_seedbytes(void);

#define crypto_box_curve25519xsalsa20poly1305_PUBLICKEYBYTES 32U
SODIUM_EXPORT
size_t crypto_box_curve25519xsalsa20poly1305_publickeybytes(void);

#define crypto_box_curve25519xsalsa20poly1305_SECRETKEYBYTES 32U
SODIUM_EXPORT
size_t crypto_box_curve25519xsalsa20poly1305_secretkeybytes(void);

#define crypto_box_curve25519xsalsa20poly1305_BEFORENMBYTES 32U
SODIUM_EXPORT
size_t crypto_box_curve25519xsalsa20poly1305_beforenmbytes(void);

#define crypto_box_curve25519xsalsa20poly1305_NONCEBYTES 24U
SODIUM_EXPORT
size_t crypto_box_curve25519xsalsa20poly1305_noncebytes(void);

#define crypto_box_curve25519xsalsa20poly1305_MACBYTES 16U
SODIUM_EXPORT
size_t crypto_box_curve25519xsalsa20poly1305_macbytes(void);

/* Only for the libsodium API - The NaCl compatibility API would require BOXZEROBYTES extra bytes */
#define crypto_box_curve25519xsalsa20poly1305_MESSAGEBYTES_MAX \
    (crypto_stream_xsalsa20_MESSAGEBYTES_MAX - crypto_box_curve25519xsalsa20poly1305_MACBYTES)
SODIUM_EXPORT
size_t crypto_box_curve25519xsalsa20poly1305_messagebytes_max(void);

SODIUM_EXPORT
int crypto_box_curve25519xsalsa20poly1305_seed_keypair(unsigned char *pk,
                                                       unsigned char *sk,
                                                       const unsigned char *seed)
            __attribute__ ((nonnull));

SODIUM_EXPORT
int crypto_box_curve25519xsalsa20poly1305_keypair(unsigned char *pk,
                                                  unsigned char *sk)
            __attribute__ ((nonnull));

SODIUM_EXPORT
int crypto_box_curve25519xsalsa20poly1305_beforenm(unsigned char *k,
                                                   const unsigned char *pk,
                                                   const unsigned char *sk)
            __attribute__ ((warn_unused_result)) __attribute__ ((nonnull));

/* -- NaCl compatibility interface ; Requires padding -- */

#define crypto_box_curve25519xsalsa20poly1305_BOXZEROBYTES 16U
SODIUM_EXPORT
size_t crypto_box_curve25519xsalsa20poly1305_boxzerobytes(void);

#define crypto_box_curve25519xsalsa20poly1305_ZEROBYTES \
    (crypto_box_curve25519xsalsa20poly1305_BOXZEROBYTES + \
     crypto_box_curve25519xsalsa20poly1305_MACBYTES)
SODIUM_EXPORT
size_t crypto_box_curve25519xsalsa20poly1305_zerobytes(void);

SODIUM_EXPORT
int crypto_box_curve25519xsalsa20poly1305(unsigned char *c,
                                          const unsigned char *m,
                                          unsigned long long mlen,
                                          const unsigned char *n,
                                          const unsigned char *pk,
                                          const unsigned char *sk)
            __attribute__ ((warn_unused_result)) __attribute__ ((nonnull));

SODIUM_EXPORT
int crypto_box_curve25519xsalsa20poly1305_open(unsigned char *m,
                                               const unsigned char *c,
                                               unsigned long long clen,
                                               const unsigned char *n,
                                               const unsigned char *pk,
                                               const unsigned char *sk)
            __attribute__ ((warn_unused_result)) __attribute__ ((nonnull(2, 4, 5, 6)));

SODIUM_EXPORT
int crypto_box_curve25519xsalsa20poly1305_afternm(unsigned char *c,
                                                  const unsigned char *m,
                                                  unsigned long long mlen,
                                                  const unsigned char *n,
                                                  const unsigned char *k)
            __attribute__ ((nonnull));

SODIUM_EXPORT
int crypto_box_curve25519xsalsa20poly1305_open_afternm(unsigned char *m,
                                                       const unsigned char *c,
                                                       unsigned long long clen,
                                                       const unsigned char *n,
                                                       const unsigned char *k)
            __attribute__ ((warn_unused_result)) __attribute__ ((nonnull(2, 4, 5)));

#ifdef __cplusplus
}
#endif

#endif
