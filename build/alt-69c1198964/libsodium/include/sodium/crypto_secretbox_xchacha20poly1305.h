#ifndef crypto_secretbox_xchacha20poly1305_H
#define crypto_secretbox_xchacha20poly1305_H

#include <stddef.h>
#include "crypto_stream_xchacha20.h"
#include "export.h"

#ifdef __cplusplus
# ifdef __GNUC__
#  pragma GCC diagnostic ignored "-Wlong-long"
# endif
extern "C" {
#endif

#define crypto_secretbox_xchacha20poly1305_KEYBYTES 32U
SODIUM_EXPORT
size_t crypto_secretbox_xchacha20poly1305_keybytes(void);

#define crypto_secretbox_xchacha20poly1305_NONCEBYTES 24U
SODIUM_EXPORT
size_t crypto_secretbox_xchacha20poly1305_noncebytes(void);

#define crypto_secretbox_xchacha20poly1305_MACBYTES 16U
SODIUM_EXPORT
size_t crypto_secretbox_xchacha20poly1305_macbytes(void);

#define crypto_secretbox_xchacha20poly1305_MESSAGEBYTES_MAX \
    (crypto_stream_xchacha20_MESSAGEBYTES_MAX - crypto_secretbox_xchacha20poly1305_MACBYTES)
SODIUM_EXPORT
size_t crypto_secretbox_xchacha20poly1305_messagebytes_max(void);

SODIUM_EXPORT
int crypto_secretbox_xchacha20poly1305_easy(unsigned char *c,
                                            const unsigned char *m,
                                            unsigned long long mlen,
                                            const unsigned char *n,
                                            const unsigned char *k)
            __attribute__ ((nonnull));

SODIUM_EXPORT
int crypto_secretbox_xchacha20poly1305_open_easy(unsigned char *m,
                                                 const unsigned char *c,
                                                 unsigned long long clen,
                                                 const unsigned char *n,
                                                 const unsigned char *k)
            __attribute__ ((warn_unused_result)) __attribute__ ((nonnull(2, 4, 5)));

SODIUM_EXPORT
int crypto_secretbox_xchacha20poly1305_detached(unsigned char *c,
                                                unsigned char *mac,
                                                const unsigned char *m,
                                                unsigned long long mlen,
                                                const unsigned char *n,
                                                const unsigned char *k)
            __attribute__ ((nonnull));

SODIUM_EXPORT
int crypto_secretbox_xchacha20poly1305_open_detached(unsigned char *m,
                                                     const unsigned char *c,
                                                     const unsigned char *mac,
                                                     unsigned long long clen,
                                                     const unsigned char *n,
                                                     const unsigned char *k)
            __attribute__ ((warn_unused_result)) __attribute__ ((nonnull(2, 3, 5, 6)));

#ifdef __cplusplus
}
#endif

#endif
