#ifndef crypto_pwhash_H
#define crypto_pwhash_H

#include <stddef.h>

#include "crypto_pwhash_argon2i.h"
#include "crypto_pwhash_argon2id.h"
#include "export.h"

#ifdef __cplusplus
# ifdef __GNUC__
#  pragma GCC diagnostic ignored "-Wlong-long"
# endif
extern "C" {
#endif

#define crypto_pwhash_ALG_ARGON2I13 crypto_pwhash_argon2i_ALG_ARGON2I13
SODIUM_EXPORT
int crypto_pwhash_alg_argon2i13(void);

#define crypto_pwhash_ALG_ARGON2ID13 crypto_pwhash_argon2id_ALG_ARGON2ID13
SODIUM_EXPORT
int crypto_pwhash_alg_argon2id13(void);

#define crypto_pwhash_ALG_DEFAULT crypto_pwhash_ALG_ARGON2ID13
SODIUM_EXPORT
int crypto_pwhash_alg_default(void);

#define crypto_pwhash_BYTES_MIN crypto_pwhash_argon2id_BYTES_MIN
SODIUM_EXPORT
size_t crypto_pwhash_bytes_min(void);

#define crypto_pwhash_BYTES_MAX crypto_pwhash_argon2id_BYTES_MAX
SODIUM_EXPORT
size_t crypto_pwhash_bytes_max(void);

#define crypto_pwhash_PASSWD_MIN crypto_pwhash_argon2id_PASSWD_MIN
SODIUM_EXPORT
size_t crypto_pwhash_passwd_min(void);

#define crypto_pwhash_PASSWD_MAX crypto_pwhash_argon2id_PASSWD_MAX
SODIUM_EXPORT
size_t crypto_pwhash_passwd_max(void);

#define crypto_pwhash_SALTBYTES crypto_pwhash_argon2id_SALTBYTES
SODIUM_EXPORT
size_t crypto_pwhash_saltbytes(void);

#define crypto_pwhash_STRBYTES crypto_pwhash_argon2id_STRBYTES
SODIUM_EXPORT
size_t crypto_pwhash_strbytes(void);

#define crypto_pwhash_STRPREFIX crypto_pwhash_argon2id_STRPREFIX
SODIUM_EXPORT
const char *crypto_pwhash_strprefix(void);

#define crypto_pwhash_OPSLIMIT_MIN crypto_pwhash_argon2id_OPSLIMIT_MIN
SODIUM_EXPORT
size_t crypto_pwhash_opslimit_min(void);

#define crypto_pwhash_OPSLIMIT_MAX crypto_pwhash_argon2id_OPSLIMIT_MAX
SODIUM_EXPORT
size_t crypto_pwhash_opslimit_max(void);

#define crypto_pwhash_MEMLIMIT_MIN crypto_pwhash_argon2id_MEMLIMIT_MIN
SODIUM_EXPORT
size_t crypto_pwhash_memlimit_min(void);

#define crypto_pwhash_MEMLIMIT_MAX crypto_pwhash_argon2id_MEMLIMIT_MAX
SODIUM_EXPORT
size_t crypto_pwhash_memlimit_max(void);

#define crypto_pwhash_OPSLIMIT_INTERACTIVE crypto_pwhash_argon2id_OPSLIMIT_INTERACTIVE
SODIUM_EXPORT
size_t crypto_pwhash_opslimit_interactive(void);

#define crypto_pwhash_MEMLIMIT_INTERACTIVE crypto_pwhash_argon2id_MEMLIMIT_INTERACTIVE
SODIUM_EXPORT
size_t crypto_pwhash_memlimit_interactive(void);

#define crypto_pwhash_OPSLIMIT_MODERATE crypto_pwhash_argon2id_OPSLIMIT_MODERATE
SODIUM_EXPORT
size_t crypto_pwhash_opslimit_moderate(void);

#define crypto_pwhash_MEMLIMIT_MODERATE crypto_pwhash_argon2id_MEMLIMIT_MODERATE
SODIUM_EXPORT
size_t crypto_pwhash_memlimit_moderate(void);

#define crypto_pwhash_OPSLIMIT_SENSITIVE crypto_pwhash_argon2id_OPSLIMIT_SENSITIVE
SODIUM_EXPORT
size_t crypto_pwhash_opslimit_sensitive(void);

#define crypto_pwhash_MEMLIMIT_SENSITIVE crypto_pwhash_argon2id_MEMLIMIT_SENSITIVE
SODIUM_EXPORT
size_t crypto_pwhash_memlimit_sensitive(void);

/*
 * With this function, do not forget to store all parameters, including the
 * algorithm identifier in order to produce deterministic output.
 * The crypto_pwhash_* definitions, including crypto_pwhash_ALG_DEFAULT,
 * may change.
 */
SODIUM_EXPORT
int crypto_pwhash(unsigned char * const out, unsigned long long outlen,
                  const char * const passwd, unsigned long long passwdlen,
                  const unsigned char * const salt,
                  unsigned long long opslimit, size_t memlimit, int alg)
            __attribute__ ((warn_unused_result)) __attribute__ ((nonnull));

/*
 * The output string already includes all the required parameters, including
 * the algorithm identifier. The string is all that has to be stored in
 * order to verify a password.
 */
SODIUM_EXPORT
int crypto_pwhash_str(char out[crypto_pwhash_STRBYTES],
                      const char * const passwd, unsigned long long passwdlen,
                      unsigned long long opslimit, size_t memlimit)
            __attribute__ ((warn_unused_result)) __attribute__ ((nonnull));

SODIUM_EXPORT
int crypto_pwhash_str_alg(char out[crypto_pwhash_STRBYTES],
                          const char * const passwd, unsigned long long passwdlen,
                          unsigned long long opslimit, size_t memlimit, int alg)
            __attribute__ ((warn_unused_result)) __attribute__ ((nonnull));

SODIUM_EXPORT
int crypto_pwhash_str_verify(const char str[crypto_pwhash_STRBYTES],
                             const char * const passwd,
                             unsigned long long passwdlen)
            __attribute__ ((warn_unused_result)) __attribute__ ((nonnull));

SODIUM_EXPORT
int crypto_pwhash_str_needs_rehash(const char str[crypto_pwhash_STRBYTES],
                                   unsigned long long opslimit, size_t memlimit)
            __attribute__ ((warn_unused_result)) __attribute__ ((nonnull));

#define crypto_pwhash_PRIMITIVE "argon2i"
SODIUM_EXPORT
const char *crypto_pwhash_primitive(void)
            __attribute__ ((warn_unused_result));

#ifdef __cplusplus
}
#endif

#endif
