#ifndef crypto_kdf_H
#define crypto_kdf_H

#include <stddef.h>
#include <stdint.h>

#include "crypto_kdf_blake2b.h"
#include "export.h"

#ifdef __cplusplus
# ifdef __GNUC__
#  pragma GCC diagnostic ignored "-Wlong-long"
# endif
extern "C" {
#endif

#define crypto_kdf_BYTES_MIN crypto_kdf_blake2b_BYTES_MIN
SODIUM_EXPORT
size_t crypto_kdf_bytes_min(void);

#define crypto_kdf_BYTES_MAX crypto_kdf_blake2b_BYTES_MAX
SODIUM_EXPORT
size_t crypto_kdf_bytes_max(void);

#define crypto_kdf_CONTEXTBYTES crypto_kdf_blake2b_CONTEXTBYTES
SODIUM_EXPORT
size_t crypto_kdf_contextbytes(void);

#define crypto_kdf_KEYBYTES crypto_kdf_blake2b_KEYBYTES
SODIUM_EXPORT
size_t crypto_kdf_keybytes(void);

#define crypto_kdf_PRIMITIVE "blake2b"
SODIUM_EXPORT
const char *crypto_kdf_primitive(void)
            __attribute__ ((warn_unused_result));

SODIUM_EXPORT
int crypto_kdf_derive_from_key(unsigned char *subkey, size_t subkey_len,
                               uint64_t subkey_id,
                               const char ctx[crypto_kdf_CONTEXTBYTES],
                               const unsigned char key[crypto_kdf_KEYBYTES])
            __attribute__ ((nonnull));

SODIUM_EXPORT
void crypto_kdf_keygen(unsigned char k[crypto_kdf_KEYBYTES])
            __attribute__ ((nonnull));

#ifdef __cplusplus
}
#endif

#endif
