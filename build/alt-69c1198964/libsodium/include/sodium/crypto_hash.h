#ifndef crypto_hash_H
#define crypto_hash_H

/*
 * WARNING: Unless you absolutely need to use SHA512 for interoperatibility,
 * purposes, you might want to consider crypto_generichash() instead.
 * Unlike SHA512, crypto_generichash() is not vulnerable to length
 * extension attacks.
 */

#include <stddef.h>

#include "crypto_hash_sha512.h"
#include "export.h"

#ifdef __cplusplus
# ifdef __GNUC__
#  pragma GCC diagnostic ignored "-Wlong-long"
# endif
extern "C" {
#endif

#define crypto_hash_BYTES crypto_hash_sha512_BYTES
SODIUM_EXPORT
size_t crypto_hash_bytes(void);

SODIUM_EXPORT
int crypto_hash(unsigned char *out, const unsigned char *in,
                unsigned long long inlen) __attribute__ ((nonnull));

#define crypto_hash_PRIMITIVE "sha512"
SODIUM_EXPORT
const char *crypto_hash_primitive(void)
            __attribute__ ((warn_unused_result));

#ifdef __cplusplus
}
#endif

#endif
