
#ifndef randombytes_salsa20_random_H
#define randombytes_salsa20_random_H

#include "export.h"
#include "randombytes.h"

#ifdef __cplusplus
extern "C" {
#endif

SODIUM_EXPORT
extern struct randombytes_implementation randombytes_salsa20_implementation;

#ifdef __cplusplus
}
#endif

#endif
