
#ifndef randombytes_H
#define randombytes_H

#include <stddef.h>
#include <stdint.h>

#include <sys/types.h>

#include "export.h"

#ifdef __cplusplus
# ifdef __GNUC__
#  pragma GCC diagnostic ignored "-Wlong-long"
# endif
extern "C" {
#endif

typedef struct randombytes_implementation {
    const char *(*implementation_name)(void); /* required */
    uint32_t    (*random)(void);              /* required */
    void        (*stir)(void);                /* optional */
    uint32_t    (*uniform)(const uint32_t upper_bound); /* optional, a default implementation will be used if NULL */
    void        (*buf)(void * const buf, const size_t size); /* required */
    int         (*close)(void);               /* optional */
} randombytes_implementation;

#define randombytes_BYTES_MAX SODIUM_MIN(SODIUM_SIZE_MAX, 0xffffffffUL)

#define randombytes_SEEDBYTES 32U
SODIUM_EXPORT
size_t randombytes_seedbytes(void);

SODIUM_EXPORT
void randombytes_buf(void * const buf, const size_t size)
            __attribute__ ((nonnull));

SODIUM_EXPORT
void randombytes_buf_deterministic(void * const buf, const size_t size,
                                   const unsigned char seed[randombytes_SEEDBYTES])
            __attribute__ ((nonnull));

SODIUM_EXPORT
uint32_t randombytes_random(void);

SODIUM_EXPORT
uint32_t randombytes_uniform(const uint32_t upper_bound);

SODIUM_EXPORT
void randombytes_stir(void);

SODIUM_EXPORT
int randombytes_close(void);

SODIUM_EXPORT
int randombytes_set_implementation(randombytes_implementation *impl)
            __attribute__ ((nonnull));

SODIUM_EXPORT
const char *randombytes_implementation_name(void);

/* -- NaCl compatibility interface -- */

SODIUM_EXPORT
void randombytes(unsigned char * const buf, const unsigned long long buf_len)
            __attribute__ ((nonnull));

#ifdef __cplusplus
}
#endif

#endif
