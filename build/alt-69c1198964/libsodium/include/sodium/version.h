
#ifndef sodium_version_H
#define sodium_version_H

#include "export.h"

#define SODIUM_VERSION_STRING "1.0.17"

#define SODIUM_LIBRARY_VERSION_MAJOR 10
#define SODIUM_LIBRARY_VERSION_MINOR 2


#ifdef __cplusplus
extern "C" {
#endif

SODIUM_EXPORT
const char *sodium_version_string(void);

SODIUM_EXPORT
int         sodium_library_version_major(void);

SODIUM_EXPORT
int         sodium_library_version_minor(void);

SODIUM_EXPORT
int         sodium_library_minimal(void);

#ifdef __cplusplus
}
#endif

#endif
