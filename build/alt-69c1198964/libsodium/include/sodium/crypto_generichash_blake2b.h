#ifndef crypto_generichash_blake2b_H
#define crypto_generichash_blake2b_H

#include <stddef.h>
#include <stdint.h>
#include <stdlib.h>

#include "export.h"

#ifdef __cplusplus
# ifdef __GNUC__
#  pragma GCC diagnostic ignored "-Wlong-long"
# endif
extern "C" {
#endif

#if defined(__IBMC__) || defined(__SUNPRO_C) || defined(__SUNPRO_CC)
# pragma pack(1)
#else
# pragma pack(push, 1)
#endif

typedef struct CRYPTO_ALIGN(64) crypto_generichash_blake2b_state {
    unsigned char opaque[384];
} crypto_generichash_blake2b_state;

#if defined(__IBMC__) || defined(__SUNPRO_C) || defined(__SUNPRO_CC)
# pragma pack()
#else
# pragma pack(pop)
#endif

#define crypto_generichash_blake2b_BYTES_MIN     16U
SODIUM_EXPORT
size_t crypto_generichash_blake2b_bytes_min(void);

#define crypto_generichash_blake2b_BYTES_MAX     64U
SODIUM_EXPORT
size_t crypto_generichash_blake2b_bytes_max(void);

#define crypto_generichash_blake2b_BYTES         32U
SODIUM_EXPORT
size_t crypto_generichash_blake2b_bytes(void);

#define crypto_generichash_blake2b_KEYBYTES_MIN  16U
SODIUM_EXPORT
size_t crypto_generichash_blake2b_keybytes_min(void);

#define crypto_generichash_blake2b_KEYBYTES_MAX  64U
SODIUM_EXPORT
size_t crypto_generichash_blake2b_keybytes_max(void);

#define crypto_generichash_blake2b_KEYBYTES      32U
SODIUM_EXPORT
size_t crypto_generichash_blake2b_keybytes(void);

#define crypto_generichash_blake2b_SALTBYTES     16U
SODIUM_EXPORT
size_t crypto_generichash_blake2b_saltbytes(void);

#define crypto_generichash_blake2b_PERSONALBYTES 16U
SODIUM_EXPORT
size_t crypto_generichash_blake2b_personalbytes(void);

SODIUM_EXPORT
size_t crypto_generichash_blake2b_statebytes(void);

SODIUM_EXPORT
int crypto_generichash_blake2b(unsigned char *out, size_t outlen,
                               const unsigned char *in,
                               unsigned long long inlen,
                               const unsigned char *key, size_t keylen)
            __attribute__ ((nonnull(1)));

SODIUM_EXPORT
int crypto_generichash_blake2b_salt_personal(unsigned char *out, size_t outlen,
                                             const unsigned char *in,
                                             unsigned long long inlen,
                                             const unsigned char *key,
                                             size_t keylen,
                                             const unsigned char *salt,
                                             const unsigned char *personal)
            __attribute__ ((nonnull(1)));

SODIUM_EXPORT
int crypto_generichash_blake2b_init(crypto_generichash_blake2b_state *state,
                                    const unsigned char *key,
                                    const size_t keylen, const size_t outlen)
            __attribute__ ((nonnull(1)));

SODIUM_EXPORT
int crypto_generichash_blake2b_init_salt_personal(crypto_generichash_blake2b_state *state,
                                                  const unsigned char *key,
                                                  const size_t keylen, const size_t outlen,
                                                  const unsigned char *salt,
                                                  const unsigned char *personal)
            __attribute__ ((nonnull(1)));

SODIUM_EXPORT
int crypto_generichash_blake2b_update(crypto_generichash_blake2b_state *state,
                                      const unsigned char *in,
                                      unsigned long long inlen)
            __attribute__ ((nonnull));

SODIUM_EXPORT
int crypto_generichash_blake2b_final(crypto_generichash_blake2b_state *state,
                                     unsigned char *out,
                                     const size_t outlen) __attribute__ ((nonnull));

SODIUM_EXPORT
void crypto_generichash_blake2b_keygen(unsigned char k[crypto_generichash_blake2b_KEYBYTES])
            __attribute__ ((nonnull));

#ifdef __cplusplus
}
#endif

#endif
