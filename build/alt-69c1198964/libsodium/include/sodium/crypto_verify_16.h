#ifndef crypto_verify_16_H
#define crypto_verify_16_H

#include <stddef.h>
#include "export.h"

#ifdef __cplusplus
extern "C" {
#endif

#define crypto_verify_16_BYTES 16U
SODIUM_EXPORT
size_t crypto_verify_16_bytes(void);

SODIUM_EXPORT
int crypto_verify_16(const unsigned char *x, const unsigned char *y)
            __attribute__ ((warn_unused_result)) __attribute__ ((nonnull));

#ifdef __cplusplus
}
#endif

#endif
