#ifndef crypto_core_hchacha20_H
#define crypto_core_hchacha20_H

#include <stddef.h>
#include "export.h"

#ifdef __cplusplus
extern "C" {
#endif

#define crypto_core_hchacha20_OUTPUTBYTES 32U
SODIUM_EXPORT
size_t crypto_core_hchacha20_outputbytes(void);

#define crypto_core_hchacha20_INPUTBYTES 16U
SODIUM_EXPORT
size_t crypto_core_hchacha20_inputbytes(void);

#define crypto_core_hchacha20_KEYBYTES 32U
SODIUM_EXPORT
size_t crypto_core_hchacha20_keybytes(void);

#define crypto_core_hchacha20_CONSTBYTES 16U
SODIUM_EXPORT
size_t crypto_core_hchacha20_constbytes(void);

SODIUM_EXPORT
int crypto_core_hchacha20(unsigned char *out, const unsigned char *in,
                          const unsigned char *k, const unsigned char *c)
            __attribute__ ((nonnull(1, 2, 3)));

#ifdef __cplusplus
}
#endif

#endif
