#ifndef crypto_secretbox_xsalsa20poly1305_H
#define crypto_secretbox_xsalsa20poly1305_H

#include <stddef.h>
#include "crypto_stream_xsalsa20.h"
#include "export.h"

#ifdef __cplusplus
# ifdef __GNUC__
#  pragma GCC diagnostic ignored "-Wlong-long"
# endif
extern "C" {
#endif

#define crypto_secretbox_xsalsa20poly1305_KEYBYTES 32U
SODIUM_EXPORT
size_t crypto_secretbox_xsalsa20poly1305_keybytes(void);

#define crypto_secretbox_xsalsa20poly1305_NONCEBYTES 24U
SODIUM_EXPORT
size_t crypto_secretbox_xsalsa20poly1305_noncebytes(void);

#define crypto_secretbox_xsalsa20poly1305_MACBYTES 16U
SODIUM_EXPORT
size_t crypto_secretbox_xsalsa20poly1305_macbytes(void);

/* Only for the libsodium API - The NaCl compatibility API would require BOXZEROBYTES extra bytes */
#define crypto_secretbox_xsalsa20poly1305_MESSAGEBYTES_MAX \
    (crypto_stream_xsalsa20_MESSAGEBYTES_MAX - crypto_secretbox_xsalsa20poly1305_MACBYTES)
SODIUM_EXPORT
size_t crypto_secretbox_xsalsa20poly1305_messagebytes_max(void);

SODIUM_EXPORT
int crypto_secretbox_xsalsa20poly1305(unsigned char *c,
                                      const unsigned char *m,
                                      unsigned long long mlen,
                                      const unsigned char *n,
                                      const unsigned char *k)
            __attribute__ ((nonnull));

SODIUM_EXPORT
int crypto_secretbox_xsalsa20poly1305_open(unsigned char *m,
                                           const unsigned char *c,
                                           unsigned long long clen,
                                           const unsigned char *n,
                                           const unsigned char *k)
            __attribute__ ((warn_unused_result)) __attribute__ ((nonnull(2, 4, 5)));

SODIUM_EXPORT
void crypto_secretbox_xsalsa20poly1305_keygen(unsigned char k[crypto_secretbox_xsalsa20poly1305_KEYBYTES])
            __attribute__ ((nonnull));

/* -- NaCl compatibility interface ; Requires padding -- */

#define crypto_secretbox_xsalsa20poly1305_BOXZEROBYTES 16U
SODIUM_EXPORT
size_t crypto_secretbox_xsalsa20poly1305_boxzerobytes(void);

#define crypto_secretbox_xsalsa20poly1305_ZEROBYTES \
    (crypto_secretbox_xsalsa20poly1305_BOXZEROBYTES + \
     crypto_secretbox_xsalsa20poly1305_MACBYTES)
SODIUM_EXPORT
size_t crypto_secretbox_xsalsa20poly1305_zerobytes(void);

#ifdef __cplusplus
}
#endif

#endif
