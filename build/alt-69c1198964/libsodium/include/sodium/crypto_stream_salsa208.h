#ifndef crypto_stream_salsa208_H
#define crypto_stream_salsa208_H

/*
 *  WARNING: This is just a stream cipher. It is NOT authenticated encryption.
 *  While it provides some protection against eavesdropping, it does NOT
 *  provide any security against active attacks.
 *  Unless you know what you're doing, what you are looking for is probably
 *  the crypto_box functions.
 */

#include <stddef.h>
#include "export.h"

#ifdef __cplusplus
# ifdef __GNUC__
#  pragma GCC diagnostic ignored "-Wlong-long"
# endif
extern "C" {
#endif

#define crypto_stream_salsa208_KEYBYTES 32U
SODIUM_EXPORT
size_t crypto_stream_salsa208_keybytes(void)
            __attribute__ ((deprecated));

#define crypto_stream_salsa208_NONCEBYTES 8U
SODIUM_EXPORT
size_t crypto_stream_salsa208_noncebytes(void)
            __attribute__ ((deprecated));

#define crypto_stream_salsa208_MESSAGEBYTES_MAX SODIUM_SIZE_MAX
    SODIUM_EXPORT
size_t crypto_stream_salsa208_messagebytes_max(void)
            __attribute__ ((deprecated));

SODIUM_EXPORT
int crypto_stream_salsa208(unsigned char *c, unsigned long long clen,
                           const unsigned char *n, const unsigned char *k)
            __attribute__ ((deprecated)) __attribute__ ((nonnull));

SODIUM_EXPORT
int crypto_stream_salsa208_xor(unsigned char *c, const unsigned char *m,
                               unsigned long long mlen, const unsigned char *n,
                               const unsigned char *k)
            __attribute__ ((deprecated)) __attribute__ ((nonnull));

SODIUM_EXPORT
void crypto_stream_salsa208_keygen(unsigned char k[crypto_stream_salsa208_KEYBYTES])
            __attribute__ ((deprecated)) __attribute__ ((nonnull));

#ifdef __cplusplus
}
#endif

#endif
