#ifndef crypto_scalarmult_curve25519_H
#define crypto_scalarmult_curve25519_H

#include <stddef.h>

#include "export.h"

#ifdef __cplusplus
extern "C" {
#endif

#define crypto_scalarmult_curve25519_BYTES 32U
SODIUM_EXPORT
size_t crypto_scalarmult_curve25519_bytes(void);

#define crypto_scalarmult_curve25519_SCALARBYTES 32U
SODIUM_EXPORT
size_t crypto_scalarmult_curve25519_scalarbytes(void);

/*
 * NOTE: Do not use the result of this function directly.
 *
 * Hash the result with the public keys in order to compute a shared
 * secret key: H(q || client_pk || server_pk)
 *
 * Or unless this is not an option, use the crypto_kx() API instead.
 */
SODIUM_EXPORT
int crypto_scalarmult_curve25519(unsigned char *q, const unsigned char *n,
                                 const unsigned char *p)
            __attribute__ ((warn_unused_result)) __attribute__ ((nonnull));

SODIUM_EXPORT
int crypto_scalarmult_curve25519_base(unsigned char *q,
                                      const unsigned char *n)
            __attribute__ ((nonnull));

#ifdef __cplusplus
}
#endif

#endif
