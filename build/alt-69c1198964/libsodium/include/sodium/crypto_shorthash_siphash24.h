#ifndef crypto_shorthash_siphash24_H
#define crypto_shorthash_siphash24_H

#include <stddef.h>
#include "export.h"

#ifdef __cplusplus
# ifdef __GNUC__
#  pragma GCC diagnostic ignored "-Wlong-long"
# endif
extern "C" {
#endif

/* -- 64-bit output -- */

#define crypto_shorthash_siphash24_BYTES 8U
SODIUM_EXPORT
size_t crypto_shorthash_siphash24_bytes(void);

#define crypto_shorthash_siphash24_KEYBYTES 16U
SODIUM_EXPORT
size_t crypto_shorthash_siphash24_keybytes(void);

SODIUM_EXPORT
int crypto_shorthash_siphash24(unsigned char *out, const unsigned char *in,
                               unsigned long long inlen, const unsigned char *k)
            __attribute__ ((nonnull));

#ifndef SODIUM_LIBRARY_MINIMAL
/* -- 128-bit output -- */

#define crypto_shorthash_siphashx24_BYTES 16U
SODIUM_EXPORT
size_t crypto_shorthash_siphashx24_bytes(void);

#define crypto_shorthash_siphashx24_KEYBYTES 16U
SODIUM_EXPORT
size_t crypto_shorthash_siphashx24_keybytes(void);

SODIUM_EXPORT
int crypto_shorthash_siphashx24(unsigned char *out, const unsigned char *in,
                                unsigned long long inlen, const unsigned char *k)
            __attribute__ ((nonnull));
#endif

#ifdef __cplusplus
}
#endif

#endif
