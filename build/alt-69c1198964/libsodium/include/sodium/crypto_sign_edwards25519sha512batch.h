#ifndef crypto_sign_edwards25519sha512batch_H
#define crypto_sign_edwards25519sha512batch_H

/*
 * WARNING: This construction was a prototype, which should not be used
 * any more in new projects.
 *
 * crypto_sign_edwards25519sha512batch is provided for applications
 * initially built with NaCl, but as recommended by the author of this
 * construction, new applications should use ed25519 instead.
 *
 * In Sodium, you should use the high-level crypto_sign_*() functions instead.
 */

#include <stddef.h>
#include "export.h"

#ifdef __cplusplus
# ifdef __GNUC__
#  pragma GCC diagnostic ignored "-Wlong-long"
# endif
extern "C" {
#endif

#define crypto_sign_edwards25519sha512batch_BYTES 64U
#define crypto_sign_edwards25519sha512batch_PUBLICKEYBYTES 32U
#define crypto_sign_edwards25519sha512batch_SECRETKEYBYTES (32U + 32U)
#define crypto_sign_edwards25519sha512batch_MESSAGEBYTES_MAX (SODIUM_SIZE_MAX - crypto_sign_edwards25519sha512batch_BYTES)

SODIUM_EXPORT
int crypto_sign_edwards25519sha512batch(unsigned char *sm,
                                        unsigned long long *smlen_p,
                                        const unsigned char *m,
                                        unsigned long long mlen,
                                        const unsigned char *sk)
            __attribute__ ((deprecated)) __attribute__ ((nonnull(1, 3, 5)));

SODIUM_EXPORT
int crypto_sign_edwards25519sha512batch_open(unsigned char *m,
                                             unsigned long long *mlen_p,
                                             const unsigned char *sm,
                                             unsigned long long smlen,
                                             const unsigned char *pk)
            __attribute__ ((deprecated)) __attribute__ ((nonnull(3, 5)));

SODIUM_EXPORT
int crypto_sign_edwards25519sha512batch_keypair(unsigned char *pk,
                                                unsigned char *sk)
            __attribute__ ((deprecated)) __attribute__ ((nonnull));

#ifdef __cplusplus
}
#endif

#endif
