#ifndef crypto_generichash_H
#define crypto_generichash_H

#include <stddef.h>

#include "crypto_generichash_blake2b.h"
#include "export.h"

#ifdef __cplusplus
# ifdef __GNUC__
#  pragma GCC diagnostic ignored "-Wlong-long"
# endif
extern "C" {
#endif

#define crypto_generichash_BYTES_MIN crypto_generichash_blake2b_BYTES_MIN
SODIUM_EXPORT
size_t  crypto_generichash_bytes_min(void);

#define crypto_generichash_BYTES_MAX crypto_generichash_blake2b_BYTES_MAX
SODIUM_EXPORT
size_t  crypto_generichash_bytes_max(void);

#define crypto_generichash_BYTES crypto_generichash_blake2b_BYTES
SODIUM_EXPORT
size_t  crypto_generichash_bytes(void);

#define crypto_generichash_KEYBYTES_MIN crypto_generichash_blake2b_KEYBYTES_MIN
SODIUM_EXPORT
size_t  crypto_generichash_keybytes_min(void);

#define crypto_generichash_KEYBYTES_MAX crypto_generichash_blake2b_KEYBYTES_MAX
SODIUM_EXPORT
size_t  crypto_generichash_keybytes_max(void);

#define crypto_generichash_KEYBYTES crypto_generichash_blake2b_KEYBYTES
SODIUM_EXPORT
size_t  crypto_generichash_keybytes(void);

#define crypto_generichash_PRIMITIVE "blake2b"
SODIUM_EXPORT
const char *crypto_generichash_primitive(void);

/*
 * Important when writing bindings for other programming languages:
 * the state address should be 64-bytes aligned.
 */
typedef crypto_generichash_blake2b_state crypto_generichash_state;

SODIUM_EXPORT
size_t  crypto_generichash_statebytes(void);

SODIUM_EXPORT
int crypto_generichash(unsigned char *out, size_t outlen,
                       const unsigned char *in, unsigned long long inlen,
                       const unsigned char *key, size_t keylen)
            __attribute__ ((nonnull(1)));

SODIUM_EXPORT
int crypto_generichash_init(crypto_generichash_state *state,
                            const unsigned char *key,
                            const size_t keylen, const size_t outlen)
            __attribute__ ((nonnull(1)));

SODIUM_EXPORT
int crypto_generichash_update(crypto_generichash_state *state,
                              const unsigned char *in,
                              unsigned long long inlen)
            __attribute__ ((nonnull));

SODIUM_EXPORT
int crypto_generichash_final(crypto_generichash_state *state,
                             unsigned char *out, const size_t outlen)
            __attribute__ ((nonnull));

SODIUM_EXPORT
void crypto_generichash_keygen(unsigned char k[crypto_generichash_KEYBYTES])
            __attribute__ ((nonnull));

#ifdef __cplusplus
}
#endif

#endif
