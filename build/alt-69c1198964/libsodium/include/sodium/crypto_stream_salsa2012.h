#ifndef crypto_stream_salsa2012_H
#define crypto_stream_salsa2012_H

/*
 *  WARNING: This is just a stream cipher. It is NOT authenticated encryption.
 *  While it provides some protection against eavesdropping, it does NOT
 *  provide any security against active attacks.
 *  Unless you know what you're doing, what you are looking for is probably
 *  the crypto_box functions.
 */

#include <stddef.h>
#include "export.h"

#ifdef __cplusplus
# ifdef __GNUC__
#  pragma GCC diagnostic ignored "-Wlong-long"
# endif
extern "C" {
#endif

#define crypto_stream_salsa2012_KEYBYTES 32U
SODIUM_EXPORT
size_t crypto_stream_salsa2012_keybytes(void);

#define crypto_stream_salsa2012_NONCEBYTES 8U
SODIUM_EXPORT
size_t crypto_stream_salsa2012_noncebytes(void);

#define crypto_stream_salsa2012_MESSAGEBYTES_MAX SODIUM_SIZE_MAX
SODIUM_EXPORT
size_t crypto_stream_salsa2012_messagebytes_max(void);

SODIUM_EXPORT
int crypto_stream_salsa2012(unsigned char *c, unsigned long long clen,
                            const unsigned char *n, const unsigned char *k)
            __attribute__ ((nonnull));

SODIUM_EXPORT
int crypto_stream_salsa2012_xor(unsigned char *c, const unsigned char *m,
                                unsigned long long mlen, const unsigned char *n,
                                const unsigned char *k)
            __attribute__ ((nonnull));

SODIUM_EXPORT
void crypto_stream_salsa2012_keygen(unsigned char k[crypto_stream_salsa2012_KEYBYTES])
            __attribute__ ((nonnull));

#ifdef __cplusplus
}
#endif

#endif
