
#ifndef sodium_runtime_H
#define sodium_runtime_H

#include "export.h"

#ifdef __cplusplus
extern "C" {
#endif

SODIUM_EXPORT_WEAK
int sodium_runtime_has_neon(void);

SODIUM_EXPORT_WEAK
int sodium_runtime_has_sse2(void);

SODIUM_EXPORT_WEAK
int sodium_runtime_has_sse3(void);

SODIUM_EXPORT_WEAK
int sodium_runtime_has_ssse3(void);

SODIUM_EXPORT_WEAK
int sodium_runtime_has_sse41(void);

SODIUM_EXPORT_WEAK
int sodium_runtime_has_avx(void);

SODIUM_EXPORT_WEAK
int sodium_runtime_has_avx2(void);

SODIUM_EXPORT_WEAK
int sodium_runtime_has_avx512f(void);

SODIUM_EXPORT_WEAK
int sodium_runtime_has_pclmul(void);

SODIUM_EXPORT_WEAK
int sodium_runtime_has_aesni(void);

SODIUM_EXPORT_WEAK
int sodium_runtime_has_rdrand(void);

/* ------------------------------------------------------------------------- */

int _sodium_runtime_get_cpu_features(void);

#ifdef __cplusplus
}
#endif

#endif
