
#ifndef sodium_export_H
#define sodium_export_H

#include <stddef.h>
#include <stdint.h>
#include <limits.h>

#if !defined(__clang__) && !defined(__GNUC__)
# ifdef __attribute__
#  undef __attribute__
# endif
# define __attribute__(a)
#endif

#ifdef SODIUM_STATIC
# define SODIUM_EXPORT
# define SODIUM_EXPORT_WEAK
#else
# if defined(_MSC_VER)
#  ifdef SODIUM_DLL_EXPORT
#   define SODIUM_EXPORT __declspec(dllexport)
#  else
#   define SODIUM_EXPORT __declspec(dllimport)
#  endif
# else
#  if defined(__SUNPRO_C)
#   ifndef __GNU_C__
#    define SODIUM_EXPORT __attribute__ (visibility(__global))
#   else
#    define SODIUM_EXPORT __attribute__ __global
#   endif
#  elif defined(_MSG_VER)
#   define SODIUM_EXPORT extern __declspec(dllexport)
#  else
#   define SODIUM_EXPORT __attribute__ ((visibility ("default")))
#  endif
# endif
# if defined(__ELF__) && !defined(SODIUM_DISABLE_WEAK_FUNCTIONS)
#  define SODIUM_EXPORT_WEAK SODIUM_EXPORT __attribute__((weak))
# else
#  define SODIUM_EXPORT_WEAK SODIUM_EXPORT
# endif
#endif

#ifndef CRYPTO_ALIGN
# if defined(__INTEL_COMPILER) || defined(_MSC_VER)
#  define CRYPTO_ALIGN(x) __declspec(align(x))
# else
#  define CRYPTO_ALIGN(x) __attribute__ ((aligned(x)))
# endif
#endif

#define SODIUM_MIN(A, B) ((A) < (B) ? (A) : (B))
#define SODIUM_SIZE_MAX SODIUM_MIN(UINT64_MAX, SIZE_MAX)

#endif
