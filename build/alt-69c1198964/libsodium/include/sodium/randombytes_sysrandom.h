
#ifndef randombytes_sysrandom_H
#define randombytes_sysrandom_H

#include "export.h"
#include "randombytes.h"

#ifdef __cplusplus
extern "C" {
#endif

SODIUM_EXPORT
extern struct randombytes_implementation randombytes_sysrandom_implementation;

#ifdef __cplusplus
}
#endif

#endif
