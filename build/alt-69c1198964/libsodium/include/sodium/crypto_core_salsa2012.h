#ifndef crypto_core_salsa2012_H
#define crypto_core_salsa2012_H

#include <stddef.h>
#include "export.h"

#ifdef __cplusplus
extern "C" {
#endif

#define crypto_core_salsa2012_OUTPUTBYTES 64U
SODIUM_EXPORT
size_t crypto_core_salsa2012_outputbytes(void);

#define crypto_core_salsa2012_INPUTBYTES 16U
SODIUM_EXPORT
size_t crypto_core_salsa2012_inputbytes(void);

#define crypto_core_salsa2012_KEYBYTES 32U
SODIUM_EXPORT
size_t crypto_core_salsa2012_keybytes(void);

#define crypto_core_salsa2012_CONSTBYTES 16U
SODIUM_EXPORT
size_t crypto_core_salsa2012_constbytes(void);

SODIUM_EXPORT
int crypto_core_salsa2012(unsigned char *out, const unsigned char *in,
                          const unsigned char *k, const unsigned char *c)
            __attribute__ ((nonnull(1, 2, 3)));

#ifdef __cplusplus
}
#endif

#endif
