#ifndef crypto_box_H
#define crypto_box_H

/*
 * THREAD SAFETY: crypto_box_keypair() is thread-safe,
 * provided that sodium_init() was called before.
 *
 * Other functions are always thread-safe.
 */

#include <stddef.h>

#include "crypto_box_curve25519xsalsa20poly1305.h"
#include "export.h"

#ifdef __cplusplus
# ifdef __GNUC__
#  pragma GCC diagnostic ignored "-Wlong-long"
# endif
extern "C" {
#endif

#define crypto_box_SEEDBYTES crypto_box_curve25519xsalsa20poly1305_SEEDBYTES
SODIUM_EXPORT
size_t  crypto_box_seedbytes(void);

#define crypto_box_PUBLICKEYBYTES crypto_box_curve25519xsalsa20poly1305_PUBLICKEYBYTES
SODIUM_EXPORT
size_t  crypto_box_publickeybytes(void);

#define crypto_box_SECRETKEYBYTES crypto_box_curve25519xsalsa20poly1305_SECRETKEYBYTES
SODIUM_EXPORT
size_t  crypto_box_secretkeybytes(void);

#define crypto_box_NONCEBYTES crypto_box_curve25519xsalsa20poly1305_NONCEBYTES
SODIUM_EXPORT
size_t  crypto_box_noncebytes(void);

#define crypto_box_MACBYTES crypto_box_curve25519xsalsa20poly1305_MACBYTES
SODIUM_EXPORT
size_t  crypto_box_macbytes(void);

#define crypto_box_MESSAGEBYTES_MAX crypto_box_curve25519xsalsa20poly1305_MESSAGEBYTES_MAX
SODIUM_EXPORT
size_t  crypto_box_messagebytes_max(void);

#define crypto_box_PRIMITIVE "curve25519xsalsa20poly1305"
SODIUM_EXPORT
const char *crypto_box_primitive(void);

SODIUM_EXPORT
int crypto_box_seed_keypair(unsigned char *pk, unsigned char *sk,
                            const unsigned char *seed)
            __attribute__ ((nonnull));

SODIUM_EXPORT
int crypto_box_keypair(unsigned char *pk, unsigned char *sk)
            __attribute__ ((nonnull));

SODIUM_EXPORT
int crypto_box_easy(unsigned char *c, const unsigned char *m,
                    unsigned long long mlen, const unsigned char *n,
                    const unsigned char *pk, const unsigned char *sk)
            __attribute__ ((warn_unused_result)) __attribute__ ((nonnull));

SODIUM_EXPORT
int crypto_box_open_easy(unsigned char *m, const unsigned char *c,
                         unsigned long long clen, const unsigned char *n,
                         const unsigned char *pk, const unsigned char *sk)
            __attribute__ ((warn_unused_result)) __attribute__ ((nonnull(2, 4, 5, 6)));

SODIUM_EXPORT
int crypto_box_detached(unsigned char *c, unsigned char *mac,
                        const unsigned char *m, unsigned long long mlen,
                        const unsigned char *n, const unsigned char *pk,
                        const unsigned char *sk)
            __attribute__ ((warn_unused_result)) __attribute__ ((nonnull));

SODIUM_EXPORT
int crypto_box_open_detached(unsigned char *m, const unsigned char *c,
                             const unsigned char *mac,
                             unsigned long long clen,
                             const unsigned char *n,
                             const unsigned char *pk,
                             const unsigned char *sk)
            __attribute__ ((warn_unused_result)) __attribute__ ((nonnull(2, 3, 5, 6, 7)));

/* -- Precomputation interface -- */

#define crypto_box_BEFORENMBYTES crypto_box_curve25519xsalsa20poly1305_BEFORENMBYTES
SODIUM_EXPORT
size_t  crypto_box_beforenmbytes(void);

SODIUM_EXPORT
int crypto_box_beforenm(unsigned char *k, const unsigned char *pk,
                        const unsigned char *sk)
            __attribute__ ((warn_unused_result)) __attribute__ ((nonnull));

SODIUM_EXPORT
int crypto_box_easy_afternm(unsigned char *c, const unsigned char *m,
                            unsigned long long mlen, const unsigned char *n,
                            const unsigned char *k) __attribute__ ((nonnull));

SODIUM_EXPORT
int crypto_box_open_easy_afternm(unsigned char *m, const unsigned char *c,
                                 unsigned long long clen, const unsigned char *n,
                                 const unsigned char *k)
            __attribute__ ((warn_unused_result)) __attribute__ ((nonnull(2, 4, 5)));

SODIUM_EXPORT
int crypto_box_detached_afternm(unsigned char *c, unsigned char *mac,
                                const unsigned char *m, unsigned long long mlen,
                                const unsigned char *n, const unsigned char *k)
            __attribute__ ((nonnull));

SODIUM_EXPORT
int crypto_box_open_detached_afternm(unsigned char *m, const unsigned char *c,
                                     const unsigned char *mac,
                                     unsigned long long clen, const unsigned char *n,
                                     const unsigned char *k)
            __attribute__ ((warn_unused_result)) __attribute__ ((nonnull(2, 3, 5, 6)));

/* -- Ephemeral SK interface -- */

#define crypto_box_SEALBYTES (crypto_box_PUBLICKEYBYTES + crypto_box_MACBYTES)
SODIUM_EXPORT
size_t crypto_box_sealbytes(void);

SODIUM_EXPORT
int crypto_box_seal(unsigned char *c, const unsigned char *m,
                    unsigned long long mlen, const unsigned char *pk)
            __attribute__ ((nonnull));

SODIUM_EXPORT
int crypto_box_seal_open(unsigned char *m, const unsigned char *c,
                         unsigned long long clen,
                         const unsigned char *pk, const unsigned char *sk)
            __attribute__ ((warn_unused_result)) __attribute__ ((nonnull(2, 4, 5)));

/* -- NaCl compatibility interface ; Requires padding -- */

#define crypto_box_ZEROBYTES crypto_box_curve25519xsalsa20poly1305_ZEROBYTES
SODIUM_EXPORT
size_t  crypto_box_zerobytes(void);

#define crypto_box_BOXZEROBYTES crypto_box_curve25519xsalsa20poly1305_BOXZEROBYTES
SODIUM_EXPORT
size_t  crypto_box_boxzerobytes(void);

SODIUM_EXPORT
int crypto_box(unsigned char *c, const unsigned char *m,
               unsigned long long mlen, const unsigned char *n,
               const unsigned char *pk, const unsigned char *sk)
            __attribute__ ((warn_unused_result)) __attribute__ ((nonnull));

SODIUM_EXPORT
int crypto_box_open(unsigned char *m, const unsigned char *c,
                    unsigned long long clen, const unsigned char *n,
                    const unsigned char *pk, const unsigned char *sk)
            __attribute__ ((warn_unused_result)) __attribute__ ((nonnull(2, 4, 5, 6)));

SODIUM_EXPORT
int crypto_box_afternm(unsigned char *c, const unsigned char *m,
                       unsigned long long mlen, const unsigned char *n,
                       const unsigned char *k) __attribute__ ((nonnull));

SODIUM_EXPORT
int crypto_box_open_afternm(unsigned char *m, const unsigned char *c,
                            unsigned long long clen, const unsigned char *n,
                            const unsigned char *k)
            __attribute__ ((warn_unused_result)) __attribute__ ((nonnull(2, 4, 5)));

#ifdef __cplusplus
}
#endif

#endif
