#ifndef crypto_sign_H
#define crypto_sign_H

/*
 * THREAD SAFETY: crypto_sign_keypair() is thread-safe,
 * provided that sodium_init() was called before.
 *
 * Other functions, including crypto_sign_seed_keypair() are always thread-safe.
 */

#include <stddef.h>

#include "crypto_sign_ed25519.h"
#include "export.h"

#ifdef __cplusplus
# ifdef __GNUC__
#  pragma GCC diagnostic ignored "-Wlong-long"
# endif
extern "C" {
#endif

typedef crypto_sign_ed25519ph_state crypto_sign_state;

SODIUM_EXPORT
size_t  crypto_sign_statebytes(void);

#define crypto_sign_BYTES crypto_sign_ed25519_BYTES
SODIUM_EXPORT
size_t  crypto_sign_bytes(void);

#define crypto_sign_SEEDBYTES crypto_sign_ed25519_SEEDBYTES
SODIUM_EXPORT
size_t  crypto_sign_seedbytes(void);

#define crypto_sign_PUBLICKEYBYTES crypto_sign_ed25519_PUBLICKEYBYTES
SODIUM_EXPORT
size_t  crypto_sign_publickeybytes(void);

#define crypto_sign_SECRETKEYBYTES crypto_sign_ed25519_SECRETKEYBYTES
SODIUM_EXPORT
size_t  crypto_sign_secretkeybytes(void);

#define crypto_sign_MESSAGEBYTES_MAX crypto_sign_ed25519_MESSAGEBYTES_MAX
SODIUM_EXPORT
size_t  crypto_sign_messagebytes_max(void);

#define crypto_sign_PRIMITIVE "ed25519"
SODIUM_EXPORT
const char *crypto_sign_primitive(void);

SODIUM_EXPORT
int crypto_sign_seed_keypair(unsigned char *pk, unsigned char *sk,
                             const unsigned char *seed)
            __attribute__ ((nonnull));

SODIUM_EXPORT
int crypto_sign_keypair(unsigned char *pk, unsigned char *sk)
            __attribute__ ((nonnull));

SODIUM_EXPORT
int crypto_sign(unsigned char *sm, unsigned long long *smlen_p,
                const unsigned char *m, unsigned long long mlen,
                const unsigned char *sk) __attribute__ ((nonnull(1, 3, 5)));

SODIUM_EXPORT
int validate_ed25519_pk_and_sig(const unsigned char *sig, const unsigned char *pk)
            __attribute__ ((warn_unused_result)) __attribute__ ((nonnull(1, 2)));

SODIUM_EXPORT
int crypto_sign_open(unsigned char *m, unsigned long long *mlen_p,
                     const unsigned char *sm, unsigned long long smlen,
                     const unsigned char *pk)
            __attribute__ ((warn_unused_result)) __attribute__ ((nonnull(3, 5)));

SODIUM_EXPORT
int crypto_sign_ed25519_open_batch(const unsigned char **m, const unsigned long long *mlen, 
                                const unsigned char **pk, const unsigned char **RS, 
                                size_t num, int *valid_p)
            __attribute__ ((warn_unused_result)) __attribute__ ((nonnull(1,2,3,4,6)));

SODIUM_EXPORT
int crypto_sign_detached(unsigned char *sig, unsigned long long *siglen_p,
                         const unsigned char *m, unsigned long long mlen,
                         const unsigned char *sk) __attribute__ ((nonnull(1, 3, 5)));

SODIUM_EXPORT
int crypto_sign_verify_detached(const unsigned char *sig,
                                const unsigned char *m,
                                unsigned long long mlen,
                                const unsigned char *pk)
            __attribute__ ((warn_unused_result)) __attribute__ ((nonnull));

SODIUM_EXPORT
int crypto_sign_bv_compatible_verify_detached(const unsigned char *sig,
                                const unsigned char *m,
                                unsigned long long mlen,
                                const unsigned char *pk)
            __attribute__ ((warn_unused_result)) __attribute__ ((nonnull));

SODIUM_EXPORT
int crypto_sign_init(crypto_sign_state *state);

SODIUM_EXPORT
int crypto_sign_update(crypto_sign_state *state,
                       const unsigned char *m, unsigned long long mlen)
            __attribute__ ((nonnull));

SODIUM_EXPORT
int crypto_sign_final_create(crypto_sign_state *state, unsigned char *sig,
                             unsigned long long *siglen_p,
                             const unsigned char *sk)
            __attribute__ ((nonnull(1, 2, 4)));

SODIUM_EXPORT
int crypto_sign_final_verify(crypto_sign_state *state, const unsigned char *sig,
                             const unsigned char *pk)
            __attribute__ ((warn_unused_result)) __attribute__ ((nonnull));

SODIUM_EXPORT
int crypto_sign_final_bv_compatible_verify(crypto_sign_state *state, const unsigned char *sig,
                             const unsigned char *pk)
            __attribute__ ((warn_unused_result)) __attribute__ ((nonnull));

#ifdef __cplusplus
}
#endif

#endif
