#ifndef crypto_auth_hmacsha512_H
#define crypto_auth_hmacsha512_H

#include <stddef.h>
#include "crypto_hash_sha512.h"
#include "export.h"

#ifdef __cplusplus
# ifdef __GNUC__
#  pragma GCC diagnostic ignored "-Wlong-long"
# endif
extern "C" {
#endif

#define crypto_auth_hmacsha512_BYTES 64U
SODIUM_EXPORT
size_t crypto_auth_hmacsha512_bytes(void);

#define crypto_auth_hmacsha512_KEYBYTES 32U
SODIUM_EXPORT
size_t crypto_auth_hmacsha512_keybytes(void);

SODIUM_EXPORT
int crypto_auth_hmacsha512(unsigned char *out,
                           const unsigned char *in,
                           unsigned long long inlen,
                           const unsigned char *k) __attribute__ ((nonnull));

SODIUM_EXPORT
int crypto_auth_hmacsha512_verify(const unsigned char *h,
                                  const unsigned char *in,
                                  unsigned long long inlen,
                                  const unsigned char *k)
            __attribute__ ((warn_unused_result)) __attribute__ ((nonnull));

/* ------------------------------------------------------------------------- */

typedef struct crypto_auth_hmacsha512_state {
    crypto_hash_sha512_state ictx;
    crypto_hash_sha512_state octx;
} crypto_auth_hmacsha512_state;

SODIUM_EXPORT
size_t crypto_auth_hmacsha512_statebytes(void);

SODIUM_EXPORT
int crypto_auth_hmacsha512_init(crypto_auth_hmacsha512_state *state,
                                const unsigned char *key,
                                size_t keylen) __attribute__ ((nonnull));

SODIUM_EXPORT
int crypto_auth_hmacsha512_update(crypto_auth_hmacsha512_state *state,
                                  const unsigned char *in,
                                  unsigned long long inlen) __attribute__ ((nonnull));

SODIUM_EXPORT
int crypto_auth_hmacsha512_final(crypto_auth_hmacsha512_state *state,
                                 unsigned char *out) __attribute__ ((nonnull));

SODIUM_EXPORT
void crypto_auth_hmacsha512_keygen(unsigned char k[crypto_auth_hmacsha512_KEYBYTES])
            __attribute__ ((nonnull));

#ifdef __cplusplus
}
#endif

#endif
