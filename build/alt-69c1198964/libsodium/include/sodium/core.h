
#ifndef sodium_core_H
#define sodium_core_H

#include "export.h"

#ifdef __cplusplus
extern "C" {
#endif

SODIUM_EXPORT
int sodium_init(void)
            __attribute__ ((warn_unused_result));

/* ---- */

SODIUM_EXPORT
int sodium_set_misuse_handler(void (*handler)(void));

SODIUM_EXPORT
void sodium_misuse(void)
            __attribute__ ((noreturn));

#ifdef __cplusplus
}
#endif

#endif
