#ifndef crypto_hash_sha256_H
#define crypto_hash_sha256_H

/*
 * WARNING: Unless you absolutely need to use SHA256 for interoperatibility,
 * purposes, you might want to consider crypto_generichash() instead.
 * Unlike SHA256, crypto_generichash() is not vulnerable to length
 * extension attacks.
 */

#include <stddef.h>
#include <stdint.h>
#include <stdlib.h>

#include "export.h"

#ifdef __cplusplus
# ifdef __GNUC__
#  pragma GCC diagnostic ignored "-Wlong-long"
# endif
extern "C" {
#endif

typedef struct crypto_hash_sha256_state {
    uint32_t state[8];
    uint64_t count;
    uint8_t  buf[64];
} crypto_hash_sha256_state;

SODIUM_EXPORT
size_t crypto_hash_sha256_statebytes(void);

#define crypto_hash_sha256_BYTES 32U
SODIUM_EXPORT
size_t crypto_hash_sha256_bytes(void);

SODIUM_EXPORT
int crypto_hash_sha256(unsigned char *out, const unsigned char *in,
                       unsigned long long inlen) __attribute__ ((nonnull));

SODIUM_EXPORT
int crypto_hash_sha256_init(crypto_hash_sha256_state *state)
            __attribute__ ((nonnull));

SODIUM_EXPORT
int crypto_hash_sha256_update(crypto_hash_sha256_state *state,
                              const unsigned char *in,
                              unsigned long long inlen)
            __attribute__ ((nonnull));

SODIUM_EXPORT
int crypto_hash_sha256_final(crypto_hash_sha256_state *state,
                             unsigned char *out)
            __attribute__ ((nonnull));

#ifdef __cplusplus
}
#endif

#endif
