
#ifndef randombytes_nativeclient_H
#define randombytes_nativeclient_H

#ifdef __native_client__

# include "export.h"
# include "randombytes.h"

# ifdef __cplusplus
extern "C" {
# endif

SODIUM_EXPORT
extern struct randombytes_implementation randombytes_nativeclient_implementation;

# ifdef __cplusplus
}
# endif

#endif

#endif
