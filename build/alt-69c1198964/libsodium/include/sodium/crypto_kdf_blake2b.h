#ifndef crypto_kdf_blake2b_H
#define crypto_kdf_blake2b_H

#include <stddef.h>
#include <stdint.h>

#include "crypto_kdf_blake2b.h"
#include "export.h"

#ifdef __cplusplus
# ifdef __GNUC__
#  pragma GCC diagnostic ignored "-Wlong-long"
# endif
extern "C" {
#endif

#define crypto_kdf_blake2b_BYTES_MIN 16
SODIUM_EXPORT
size_t crypto_kdf_blake2b_bytes_min(void);

#define crypto_kdf_blake2b_BYTES_MAX 64
SODIUM_EXPORT
size_t crypto_kdf_blake2b_bytes_max(void);

#define crypto_kdf_blake2b_CONTEXTBYTES 8
SODIUM_EXPORT
size_t crypto_kdf_blake2b_contextbytes(void);

#define crypto_kdf_blake2b_KEYBYTES 32
SODIUM_EXPORT
size_t crypto_kdf_blake2b_keybytes(void);

SODIUM_EXPORT
int crypto_kdf_blake2b_derive_from_key(unsigned char *subkey, size_t subkey_len,
                                       uint64_t subkey_id,
                                       const char ctx[crypto_kdf_blake2b_CONTEXTBYTES],
                                       const unsigned char key[crypto_kdf_blake2b_KEYBYTES])
            __attribute__ ((nonnull));

#ifdef __cplusplus
}
#endif

#endif
