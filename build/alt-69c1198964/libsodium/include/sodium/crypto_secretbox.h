#ifndef crypto_secretbox_H
#define crypto_secretbox_H

#include <stddef.h>

#include "crypto_secretbox_xsalsa20poly1305.h"
#include "export.h"

#ifdef __cplusplus
# ifdef __GNUC__
#  pragma GCC diagnostic ignored "-Wlong-long"
# endif
extern "C" {
#endif

#define crypto_secretbox_KEYBYTES crypto_secretbox_xsalsa20poly1305_KEYBYTES
SODIUM_EXPORT
size_t  crypto_secretbox_keybytes(void);

#define crypto_secretbox_NONCEBYTES crypto_secretbox_xsalsa20poly1305_NONCEBYTES
SODIUM_EXPORT
size_t  crypto_secretbox_noncebytes(void);

#define crypto_secretbox_MACBYTES crypto_secretbox_xsalsa20poly1305_MACBYTES
SODIUM_EXPORT
size_t  crypto_secretbox_macbytes(void);

#define crypto_secretbox_PRIMITIVE "xsalsa20poly1305"
SODIUM_EXPORT
const char *crypto_secretbox_primitive(void);

#define crypto_secretbox_MESSAGEBYTES_MAX crypto_secretbox_xsalsa20poly1305_MESSAGEBYTES_MAX
SODIUM_EXPORT
size_t crypto_secretbox_messagebytes_max(void);

SODIUM_EXPORT
int crypto_secretbox_easy(unsigned char *c, const unsigned char *m,
                          unsigned long long mlen, const unsigned char *n,
                          const unsigned char *k) __attribute__ ((nonnull));

SODIUM_EXPORT
int crypto_secretbox_open_easy(unsigned char *m, const unsigned char *c,
                               unsigned long long clen, const unsigned char *n,
                               const unsigned char *k)
            __attribute__ ((warn_unused_result)) __attribute__ ((nonnull(2, 4, 5)));

SODIUM_EXPORT
int crypto_secretbox_detached(unsigned char *c, unsigned char *mac,
                              const unsigned char *m,
                              unsigned long long mlen,
                              const unsigned char *n,
                              const unsigned char *k)
            __attribute__ ((nonnull));

SODIUM_EXPORT
int crypto_secretbox_open_detached(unsigned char *m,
                                   const unsigned char *c,
                                   const unsigned char *mac,
                                   unsigned long long clen,
                                   const unsigned char *n,
                                   const unsigned char *k)
            __attribute__ ((warn_unused_result)) __attribute__ ((nonnull(2, 3, 5, 6)));

SODIUM_EXPORT
void crypto_secretbox_keygen(unsigned char k[crypto_secretbox_KEYBYTES])
            __attribute__ ((nonnull));

/* -- NaCl compatibility interface ; Requires padding -- */

#define crypto_secretbox_ZEROBYTES crypto_secretbox_xsalsa20poly1305_ZEROBYTES
SODIUM_EXPORT
size_t  crypto_secretbox_zerobytes(void);

#define crypto_secretbox_BOXZEROBYTES crypto_secretbox_xsalsa20poly1305_BOXZEROBYTES
SODIUM_EXPORT
size_t  crypto_secretbox_boxzerobytes(void);

SODIUM_EXPORT
int crypto_secretbox(unsigned char *c, const unsigned char *m,
                     unsigned long long mlen, const unsigned char *n,
                     const unsigned char *k) __attribute__ ((nonnull));

SODIUM_EXPORT
int crypto_secretbox_open(unsigned char *m, const unsigned char *c,
                          unsigned long long clen, const unsigned char *n,
                          const unsigned char *k)
            __attribute__ ((warn_unused_result)) __attribute__ ((nonnull(2, 4, 5)));

#ifdef __cplusplus
}
#endif

#endif
