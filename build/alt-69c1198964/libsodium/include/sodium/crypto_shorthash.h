#ifndef crypto_shorthash_H
#define crypto_shorthash_H

#include <stddef.h>

#include "crypto_shorthash_siphash24.h"
#include "export.h"

#ifdef __cplusplus
# ifdef __GNUC__
#  pragma GCC diagnostic ignored "-Wlong-long"
# endif
extern "C" {
#endif

#define crypto_shorthash_BYTES crypto_shorthash_siphash24_BYTES
SODIUM_EXPORT
size_t  crypto_shorthash_bytes(void);

#define crypto_shorthash_KEYBYTES crypto_shorthash_siphash24_KEYBYTES
SODIUM_EXPORT
size_t  crypto_shorthash_keybytes(void);

#define crypto_shorthash_PRIMITIVE "siphash24"
SODIUM_EXPORT
const char *crypto_shorthash_primitive(void);

SODIUM_EXPORT
int crypto_shorthash(unsigned char *out, const unsigned char *in,
                     unsigned long long inlen, const unsigned char *k)
            __attribute__ ((nonnull));

SODIUM_EXPORT
void crypto_shorthash_keygen(unsigned char k[crypto_shorthash_KEYBYTES])
            __attribute__ ((nonnull));

#ifdef __cplusplus
}
#endif

#endif
