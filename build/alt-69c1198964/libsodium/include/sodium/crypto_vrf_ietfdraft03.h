
#ifndef crypto_vrf_ietfdraft03_H
#define crypto_vrf_ietfdraft03_H

#include <stddef.h>

#include "export.h"

#ifdef __cplusplus
# ifdef __GNUC__
#  pragma GCC diagnostic ignored "-Wlong-long"
# endif
extern "C" {
#endif

#define crypto_vrf_ietfdraft03_PUBLICKEYBYTES 32U
SODIUM_EXPORT
size_t crypto_vrf_ietfdraft03_publickeybytes(void);

#define crypto_vrf_ietfdraft03_SECRETKEYBYTES 64U
SODIUM_EXPORT
size_t crypto_vrf_ietfdraft03_secretkeybytes(void);

#define crypto_vrf_ietfdraft03_SEEDBYTES 32U
SODIUM_EXPORT
size_t crypto_vrf_ietfdraft03_seedbytes(void);

#define crypto_vrf_ietfdraft03_PROOFBYTES 80U
SODIUM_EXPORT
size_t crypto_vrf_ietfdraft03_proofbytes(void);

#define crypto_vrf_ietfdraft03_OUTPUTBYTES 64U
SODIUM_EXPORT
size_t crypto_vrf_ietfdraft03_outputbytes(void);

// Generate a keypair.
//
// Thread-safe if sodium_init() has been called first.
SODIUM_EXPORT
int crypto_vrf_ietfdraft03_keypair(unsigned char *pk, unsigned char *sk);

// Generate a keypair from a seed.
//
// Convert a 32-byte seed into a keypair per RFC8032 section 5.1.5, except the
// secret key we return has the public key appended. In particular, we hash the
// seed with SHA512. The first 32 bytes, after clamping, are the secret scalar,
// and the public key is the base point times the secret scalar. The 64-byte
// augmented secret key we return is the 32-byte seed concatenated with the
// 32-byte public key.
//
// In the IETF draft spec, the secret key is a 32-byte string from which the
// secret scalar, the secret nonce prefix, and the public point are computed.
// To avoid having to recompute the public point from the secret key every time
// we call vrf_prove, the "secret key" our keygen function returns to the user
// will actually be the secret key with the public key appended. To avoid
// confusion, we'll use "seed" to refer to the 32-byte string called the "secret
// key" in the IETF spec, and "augmented secret key" to refer to the the 64-byte
// string returned by our keygen function. libsodium's crypto_sign_ed25519
// takes the same approach.
//
// Constant time.
SODIUM_EXPORT
int crypto_vrf_ietfdraft03_keypair_from_seed(unsigned char *pk,
					     unsigned char *sk,
					     const unsigned char *seed);

// Returns 1 if public key is valid (per IETF spec section 5.6.1); 0 if invalid.
SODIUM_EXPORT
int crypto_vrf_ietfdraft03_is_valid_key(const unsigned char *pk)
            __attribute__ ((warn_unused_result));

// Generate a VRF proof for a message using a secret key.
//
// The VRF output hash can be obtained by calling crypto_vrf_proof_to_hash(proof).
// 
// Returns 0 on success, -1 on error decoding the (augmented) secret key
//
// This runs in time constant with respect to sk and, fixing a value of mlen,
// runs in time constant with respect to m.
SODIUM_EXPORT
int crypto_vrf_ietfdraft03_prove(unsigned char *proof, const unsigned char *sk,
				 const unsigned char *m,
				 unsigned long long mlen);

// Verify a VRF proof (for a given a public key and message) and validate the
// public key.
//
// For a given public key and message, there are many possible proofs but only
// one possible output hash.
//
// Returns 0 if verification succeeds and -1 on failure. If the public key is
// valid and verification succeeds, the output hash is stored in output.
SODIUM_EXPORT
int crypto_vrf_ietfdraft03_verify(unsigned char *output,
				  const unsigned char *pk,
				  const unsigned char *proof,
				  const unsigned char *m,
				  unsigned long long mlen)
            __attribute__ ((warn_unused_result));

// Convert a VRF proof to a VRF output.
//
// This function does not verify the proof.
//
// Returns 0 on success, nonzero on error decoding.
SODIUM_EXPORT
int crypto_vrf_ietfdraft03_proof_to_hash(unsigned char *hash,
				         const unsigned char *proof);

// Convert a secret key to a public key.
//
// Constant time.
SODIUM_EXPORT
void crypto_vrf_ietfdraft03_sk_to_pk(unsigned char *pk,
				     const unsigned char *sk);

// Convert a secret key to the seed that generated it.
//
// Constant time.
SODIUM_EXPORT
void crypto_vrf_ietfdraft03_sk_to_seed(unsigned char *seed,
				       const unsigned char *sk);

#ifdef __cplusplus
}
#endif

#endif
