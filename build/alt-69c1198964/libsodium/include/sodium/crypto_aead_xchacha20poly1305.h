#ifndef crypto_aead_xchacha20poly1305_H
#define crypto_aead_xchacha20poly1305_H

#include <stddef.h>
#include "export.h"

#ifdef __cplusplus
# ifdef __GNUC__
#  pragma GCC diagnostic ignored "-Wlong-long"
# endif
extern "C" {
#endif

#define crypto_aead_xchacha20poly1305_ietf_KEYBYTES 32U
SODIUM_EXPORT
size_t crypto_aead_xchacha20poly1305_ietf_keybytes(void);

#define crypto_aead_xchacha20poly1305_ietf_NSECBYTES 0U
SODIUM_EXPORT
size_t crypto_aead_xchacha20poly1305_ietf_nsecbytes(void);

#define crypto_aead_xchacha20poly1305_ietf_NPUBBYTES 24U
SODIUM_EXPORT
size_t crypto_aead_xchacha20poly1305_ietf_npubbytes(void);

#define crypto_aead_xchacha20poly1305_ietf_ABYTES 16U
SODIUM_EXPORT
size_t crypto_aead_xchacha20poly1305_ietf_abytes(void);

#define crypto_aead_xchacha20poly1305_ietf_MESSAGEBYTES_MAX \
    (SODIUM_SIZE_MAX - crypto_aead_xchacha20poly1305_ietf_ABYTES)
SODIUM_EXPORT
size_t crypto_aead_xchacha20poly1305_ietf_messagebytes_max(void);

SODIUM_EXPORT
int crypto_aead_xchacha20poly1305_ietf_encrypt(unsigned char *c,
                                               unsigned long long *clen_p,
                                               const unsigned char *m,
                                               unsigned long long mlen,
                                               const unsigned char *ad,
                                               unsigned long long adlen,
                                               const unsigned char *nsec,
                                               const unsigned char *npub,
                                               const unsigned char *k)
            __attribute__ ((nonnull(1, 8, 9)));

SODIUM_EXPORT
int crypto_aead_xchacha20poly1305_ietf_decrypt(unsigned char *m,
                                               unsigned long long *mlen_p,
                                               unsigned char *nsec,
                                               const unsigned char *c,
                                               unsigned long long clen,
                                               const unsigned char *ad,
                                               unsigned long long adlen,
                                               const unsigned char *npub,
                                               const unsigned char *k)
            __attribute__ ((warn_unused_result)) __attribute__ ((nonnull(4, 8, 9)));

SODIUM_EXPORT
int crypto_aead_xchacha20poly1305_ietf_encrypt_detached(unsigned char *c,
                                                        unsigned char *mac,
                                                        unsigned long long *maclen_p,
                                                        const unsigned char *m,
                                                        unsigned long long mlen,
                                                        const unsigned char *ad,
                                                        unsigned long long adlen,
                                                        const unsigned char *nsec,
                                                        const unsigned char *npub,
                                                        const unsigned char *k)
            __attribute__ ((nonnull(1, 2, 9, 10)));

SODIUM_EXPORT
int crypto_aead_xchacha20poly1305_ietf_decrypt_detached(unsigned char *m,
                                                        unsigned char *nsec,
                                                        const unsigned char *c,
                                                        unsigned long long clen,
                                                        const unsigned char *mac,
                                                        const unsigned char *ad,
                                                        unsigned long long adlen,
                                                        const unsigned char *npub,
                                                        const unsigned char *k)
            __attribute__ ((warn_unused_result)) __attribute__ ((nonnull(3, 5, 9, 9)));

SODIUM_EXPORT
void crypto_aead_xchacha20poly1305_ietf_keygen(unsigned char k[crypto_aead_xchacha20poly1305_ietf_KEYBYTES])
            __attribute__ ((nonnull));

/* Aliases */

#define crypto_aead_xchacha20poly1305_IETF_KEYBYTES         crypto_aead_xchacha20poly1305_ietf_KEYBYTES
#define crypto_aead_xchacha20poly1305_IETF_NSECBYTES        crypto_aead_xchacha20poly1305_ietf_NSECBYTES
#define crypto_aead_xchacha20poly1305_IETF_NPUBBYTES        crypto_aead_xchacha20poly1305_ietf_NPUBBYTES
#define crypto_aead_xchacha20poly1305_IETF_ABYTES           crypto_aead_xchacha20poly1305_ietf_ABYTES
#define crypto_aead_xchacha20poly1305_IETF_MESSAGEBYTES_MAX crypto_aead_xchacha20poly1305_ietf_MESSAGEBYTES_MAX

#ifdef __cplusplus
}
#endif

#endif
