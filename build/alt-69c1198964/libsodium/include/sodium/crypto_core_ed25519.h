#ifndef crypto_core_ed25519_H
#define crypto_core_ed25519_H

#include <stddef.h>
#include "export.h"

#ifdef __cplusplus
extern "C" {
#endif

#define crypto_core_ed25519_BYTES 32
SODIUM_EXPORT
size_t crypto_core_ed25519_bytes(void);

#define crypto_core_ed25519_UNIFORMBYTES 32
SODIUM_EXPORT
size_t crypto_core_ed25519_uniformbytes(void);

#define crypto_core_ed25519_SCALARBYTES 32
SODIUM_EXPORT
size_t crypto_core_ed25519_scalarbytes(void);

#define crypto_core_ed25519_NONREDUCEDSCALARBYTES 64
SODIUM_EXPORT
size_t crypto_core_ed25519_nonreducedscalarbytes(void);

SODIUM_EXPORT
int crypto_core_ed25519_is_valid_point(const unsigned char *p)
            __attribute__ ((nonnull));

SODIUM_EXPORT
int crypto_core_ed25519_add(unsigned char *r,
                            const unsigned char *p, const unsigned char *q)
            __attribute__ ((nonnull));

SODIUM_EXPORT
int crypto_core_ed25519_sub(unsigned char *r,
                            const unsigned char *p, const unsigned char *q)
            __attribute__ ((nonnull));

SODIUM_EXPORT
int crypto_core_ed25519_from_uniform(unsigned char *p, const unsigned char *r)
            __attribute__ ((nonnull));

SODIUM_EXPORT
void crypto_core_ed25519_scalar_random(unsigned char *r)
            __attribute__ ((nonnull));

SODIUM_EXPORT
int crypto_core_ed25519_scalar_invert(unsigned char *recip, const unsigned char *s)
            __attribute__ ((nonnull));

SODIUM_EXPORT
void crypto_core_ed25519_scalar_negate(unsigned char *neg, const unsigned char *s)
            __attribute__ ((nonnull));

SODIUM_EXPORT
void crypto_core_ed25519_scalar_complement(unsigned char *comp, const unsigned char *s)
            __attribute__ ((nonnull));

SODIUM_EXPORT
void crypto_core_ed25519_scalar_add(unsigned char *z, const unsigned char *x,
                                    const unsigned char *y)
            __attribute__ ((nonnull));

SODIUM_EXPORT
void crypto_core_ed25519_scalar_sub(unsigned char *z, const unsigned char *x,
                                    const unsigned char *y)
            __attribute__ ((nonnull));

/*
 * The interval `s` is sampled from should be at least 317 bits to ensure almost
 * uniformity of `r` over `L`.
 */
SODIUM_EXPORT
void crypto_core_ed25519_scalar_reduce(unsigned char *r, const unsigned char *s)
            __attribute__ ((nonnull));

#ifdef __cplusplus
}
#endif

#endif
