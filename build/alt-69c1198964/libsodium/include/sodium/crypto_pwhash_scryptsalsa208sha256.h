#ifndef crypto_pwhash_scryptsalsa208sha256_H
#define crypto_pwhash_scryptsalsa208sha256_H

#include <limits.h>
#include <stddef.h>
#include <stdint.h>

#include "export.h"

#ifdef __cplusplus
# ifdef __GNUC__
#  pragma GCC diagnostic ignored "-Wlong-long"
# endif
extern "C" {
#endif

#define crypto_pwhash_scryptsalsa208sha256_BYTES_MIN 16U
SODIUM_EXPORT
size_t crypto_pwhash_scryptsalsa208sha256_bytes_min(void);

#define crypto_pwhash_scryptsalsa208sha256_BYTES_MAX \
    SODIUM_MIN(SODIUM_SIZE_MAX, 0x1fffffffe0ULL)
SODIUM_EXPORT
size_t crypto_pwhash_scryptsalsa208sha256_bytes_max(void);

#define crypto_pwhash_scryptsalsa208sha256_PASSWD_MIN 0U
SODIUM_EXPORT
size_t crypto_pwhash_scryptsalsa208sha256_passwd_min(void);

#define crypto_pwhash_scryptsalsa208sha256_PASSWD_MAX SODIUM_SIZE_MAX
SODIUM_EXPORT
size_t crypto_pwhash_scryptsalsa208sha256_passwd_max(void);

#define crypto_pwhash_scryptsalsa208sha256_SALTBYTES 32U
SODIUM_EXPORT
size_t crypto_pwhash_scryptsalsa208sha256_saltbytes(void);

#define crypto_pwhash_scryptsalsa208sha256_STRBYTES 102U
SODIUM_EXPORT
size_t crypto_pwhash_scryptsalsa208sha256_strbytes(void);

#define crypto_pwhash_scryptsalsa208sha256_STRPREFIX "$7$"
SODIUM_EXPORT
const char *crypto_pwhash_scryptsalsa208sha256_strprefix(void);

#define crypto_pwhash_scryptsalsa208sha256_OPSLIMIT_MIN 32768U
SODIUM_EXPORT
size_t crypto_pwhash_scryptsalsa208sha256_opslimit_min(void);

#define crypto_pwhash_scryptsalsa208sha256_OPSLIMIT_MAX 4294967295U
SODIUM_EXPORT
size_t crypto_pwhash_scryptsalsa208sha256_opslimit_max(void);

#define crypto_pwhash_scryptsalsa208sha256_MEMLIMIT_MIN 16777216U
SODIUM_EXPORT
size_t crypto_pwhash_scryptsalsa208sha256_memlimit_min(void);

#define crypto_pwhash_scryptsalsa208sha256_MEMLIMIT_MAX \
    SODIUM_MIN(SIZE_MAX, 68719476736ULL)
SODIUM_EXPORT
size_t crypto_pwhash_scryptsalsa208sha256_memlimit_max(void);

#define crypto_pwhash_scryptsalsa208sha256_OPSLIMIT_INTERACTIVE 524288U
SODIUM_EXPORT
size_t crypto_pwhash_scryptsalsa208sha256_opslimit_interactive(void);

#define crypto_pwhash_scryptsalsa208sha256_MEMLIMIT_INTERACTIVE 16777216U
SODIUM_EXPORT
size_t crypto_pwhash_scryptsalsa208sha256_memlimit_interactive(void);

#define crypto_pwhash_scryptsalsa208sha256_OPSLIMIT_SENSITIVE 33554432U
SODIUM_EXPORT
size_t crypto_pwhash_scryptsalsa208sha256_opslimit_sensitive(void);

#define crypto_pwhash_scryptsalsa208sha256_MEMLIMIT_SENSITIVE 1073741824U
SODIUM_EXPORT
size_t crypto_pwhash_scryptsalsa208sha256_memlimit_sensitive(void);

SODIUM_EXPORT
int crypto_pwhash_scryptsalsa208sha256(unsigned char * const out,
                                       unsigned long long outlen,
                                       const char * const passwd,
                                       unsigned long long passwdlen,
                                       const unsigned char * const salt,
                                       unsigned long long opslimit,
                                       size_t memlimit)
            __attribute__ ((warn_unused_result)) __attribute__ ((nonnull));

SODIUM_EXPORT
int crypto_pwhash_scryptsalsa208sha256_str(char out[crypto_pwhash_scryptsalsa208sha256_STRBYTES],
                                           const char * const passwd,
                                           unsigned long long passwdlen,
                                           unsigned long long opslimit,
                                           size_t memlimit)
            __attribute__ ((warn_unused_result)) __attribute__ ((nonnull));

SODIUM_EXPORT
int crypto_pwhash_scryptsalsa208sha256_str_verify(const char str[crypto_pwhash_scryptsalsa208sha256_STRBYTES],
                                                  const char * const passwd,
                                                  unsigned long long passwdlen)
            __attribute__ ((warn_unused_result)) __attribute__ ((nonnull));

SODIUM_EXPORT
int crypto_pwhash_scryptsalsa208sha256_ll(const uint8_t * passwd, size_t passwdlen,
                                          const uint8_t * salt, size_t saltlen,
                                          uint64_t N, uint32_t r, uint32_t p,
                                          uint8_t * buf, size_t buflen)
            __attribute__ ((warn_unused_result)) __attribute__ ((nonnull));

SODIUM_EXPORT
int crypto_pwhash_scryptsalsa208sha256_str_needs_rehash(const char str[crypto_pwhash_scryptsalsa208sha256_STRBYTES],
                                                        unsigned long long opslimit,
                                                        size_t memlimit)
            __attribute__ ((warn_unused_result))  __attribute__ ((nonnull));

#ifdef __cplusplus
}
#endif

#endif
