#ifndef crypto_vrf_H
#define crypto_vrf_H

/*
 * THREAD SAFETY: crypto_vrf_keypair() is thread-safe provided that
 * sodium_init() was called before.
 *
 * Other functions, including crypto_vrf_keypair_from_seed(), are always
 * thread-safe.
 */

#include <stddef.h>

#include "crypto_vrf_ietfdraft03.h"
#include "export.h"

#ifdef __cplusplus
# ifdef __GNUC__
#  pragma GCC diagnostic ignored "-Wlong-long"
# endif
extern "C" {
#endif

#define crypto_vrf_PUBLICKEYBYTES crypto_vrf_ietfdraft03_PUBLICKEYBYTES
SODIUM_EXPORT
size_t crypto_vrf_publickeybytes(void);

#define crypto_vrf_SECRETKEYBYTES crypto_vrf_ietfdraft03_SECRETKEYBYTES
SODIUM_EXPORT
size_t crypto_vrf_secretkeybytes(void);

#define crypto_vrf_SEEDBYTES crypto_vrf_ietfdraft03_SEEDBYTES
SODIUM_EXPORT
size_t crypto_vrf_seedbytes(void);

#define crypto_vrf_PROOFBYTES crypto_vrf_ietfdraft03_PROOFBYTES
SODIUM_EXPORT
size_t crypto_vrf_proofbytes(void);

#define crypto_vrf_OUTPUTBYTES crypto_vrf_ietfdraft03_OUTPUTBYTES
SODIUM_EXPORT
size_t crypto_vrf_outputbytes(void);

#define crypto_vrf_PRIMITIVE "ietfdraft03"
SODIUM_EXPORT
const char *crypto_vrf_primitive(void);

SODIUM_EXPORT
int crypto_vrf_keypair(unsigned char *pk, unsigned char *sk);

SODIUM_EXPORT
int crypto_vrf_keypair_from_seed(unsigned char *pk, unsigned char *sk,
				 const unsigned char *seed);

SODIUM_EXPORT
int crypto_vrf_is_valid_key(const unsigned char *pk)
            __attribute__ ((warn_unused_result));

SODIUM_EXPORT
int crypto_vrf_prove(unsigned char *proof, const unsigned char *sk,
		     const unsigned char *m, unsigned long long mlen);

SODIUM_EXPORT
int crypto_vrf_verify(unsigned char *output,
		      const unsigned char *pk,
		      const unsigned char *proof,
		      const unsigned char *m, unsigned long long mlen)
            __attribute__ ((warn_unused_result));

SODIUM_EXPORT
int crypto_vrf_proof_to_hash(unsigned char *hash, const unsigned char *proof);

SODIUM_EXPORT
void crypto_vrf_sk_to_pk(unsigned char *pk, const unsigned char *skpk);

SODIUM_EXPORT
void crypto_vrf_sk_to_seed(unsigned char *seed, const unsigned char *skpk);

#ifdef __cplusplus
}
#endif

#endif
