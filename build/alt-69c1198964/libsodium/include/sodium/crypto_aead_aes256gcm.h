#ifndef crypto_aead_aes256gcm_H
#define crypto_aead_aes256gcm_H

/*
 * WARNING: Despite being the most popular AEAD construction due to its
 * use in TLS, safely using AES-GCM in a different context is tricky.
 *
 * No more than ~ 350 GB of input data should be encrypted with a given key.
 * This is for ~ 16 KB messages -- Actual figures vary according to
 * message sizes.
 *
 * In addition, nonces are short and repeated nonces would totally destroy
 * the security of this scheme.
 *
 * Nonces should thus come from atomic counters, which can be difficult to
 * set up in a distributed environment.
 *
 * Unless you absolutely need AES-GCM, use crypto_aead_xchacha20poly1305_ietf_*()
 * instead. It doesn't have any of these limitations.
 * Or, if you don't need to authenticate additional data, just stick to
 * crypto_secretbox().
 */

#include <stddef.h>
#include "export.h"

#ifdef __cplusplus
# ifdef __GNUC__
#  pragma GCC diagnostic ignored "-Wlong-long"
# endif
extern "C" {
#endif

SODIUM_EXPORT
int crypto_aead_aes256gcm_is_available(void);

#define crypto_aead_aes256gcm_KEYBYTES  32U
SODIUM_EXPORT
size_t crypto_aead_aes256gcm_keybytes(void);

#define crypto_aead_aes256gcm_NSECBYTES 0U
SODIUM_EXPORT
size_t crypto_aead_aes256gcm_nsecbytes(void);

#define crypto_aead_aes256gcm_NPUBBYTES 12U
SODIUM_EXPORT
size_t crypto_aead_aes256gcm_npubbytes(void);

#define crypto_aead_aes256gcm_ABYTES    16U
SODIUM_EXPORT
size_t crypto_aead_aes256gcm_abytes(void);

#define crypto_aead_aes256gcm_MESSAGEBYTES_MAX \
    SODIUM_MIN(SODIUM_SIZE_MAX - crypto_aead_aes256gcm_ABYTES, \
               (16ULL * ((1ULL << 32) - 2ULL)))
SODIUM_EXPORT
size_t crypto_aead_aes256gcm_messagebytes_max(void);

typedef CRYPTO_ALIGN(16) struct crypto_aead_aes256gcm_state_ {
    unsigned char opaque[512];
} crypto_aead_aes256gcm_state;

SODIUM_EXPORT
size_t crypto_aead_aes256gcm_statebytes(void);

SODIUM_EXPORT
int crypto_aead_aes256gcm_encrypt(unsigned char *c,
                                  unsigned long long *clen_p,
                                  const unsigned char *m,
                                  unsigned long long mlen,
                                  const unsigned char *ad,
                                  unsigned long long adlen,
                                  const unsigned char *nsec,
                                  const unsigned char *npub,
                                  const unsigned char *k)
            __attribute__ ((nonnull(1, 8, 9)));

SODIUM_EXPORT
int crypto_aead_aes256gcm_decrypt(unsigned char *m,
                                  unsigned long long *mlen_p,
                                  unsigned char *nsec,
                                  const unsigned char *c,
                                  unsigned long long clen,
                                  const unsigned char *ad,
                                  unsigned long long adlen,
                                  const unsigned char *npub,
                                  const unsigned char *k)
            __attribute__ ((warn_unused_result)) __attribute__ ((nonnull(4, 8, 9)));

SODIUM_EXPORT
int crypto_aead_aes256gcm_encrypt_detached(unsigned char *c,
                                           unsigned char *mac,
                                           unsigned long long *maclen_p,
                                           const unsigned char *m,
                                           unsigned long long mlen,
                                           const unsigned char *ad,
                                           unsigned long long adlen,
                                           const unsigned char *nsec,
                                           const unsigned char *npub,
                                           const unsigned char *k)
            __attribute__ ((nonnull(1, 2, 9, 10)));

SODIUM_EXPORT
int crypto_aead_aes256gcm_decrypt_detached(unsigned char *m,
                                           unsigned char *nsec,
                                           const unsigned char *c,
                                           unsigned long long clen,
                                           const unsigned char *mac,
                                           const unsigned char *ad,
                                           unsigned long long adlen,
                                           const unsigned char *npub,
                                           const unsigned char *k)
            __attribute__ ((warn_unused_result)) __attribute__ ((nonnull(3, 5, 8, 9)));

/* -- Precomputation interface -- */

SODIUM_EXPORT
int crypto_aead_aes256gcm_beforenm(crypto_aead_aes256gcm_state *ctx_,
                                   const unsigned char *k)
            __attribute__ ((nonnull));

SODIUM_EXPORT
int crypto_aead_aes256gcm_encrypt_afternm(unsigned char *c,
                                          unsigned long long *clen_p,
                                          const unsigned char *m,
                                          unsigned long long mlen,
                                          const unsigned char *ad,
                                          unsigned long long adlen,
                                          const unsigned char *nsec,
                                          const unsigned char *npub,
                                          const crypto_aead_aes256gcm_state *ctx_)
            __attribute__ ((nonnull(1, 8, 9)));

SODIUM_EXPORT
int crypto_aead_aes256gcm_decrypt_afternm(unsigned char *m,
                                          unsigned long long *mlen_p,
                                          unsigned char *nsec,
                                          const unsigned char *c,
                                          unsigned long long clen,
                                          const unsigned char *ad,
                                          unsigned long long adlen,
                                          const unsigned char *npub,
                                          const crypto_aead_aes256gcm_state *ctx_)
            __attribute__ ((warn_unused_result)) __attribute__ ((nonnull(4, 8, 9)));

SODIUM_EXPORT
int crypto_aead_aes256gcm_encrypt_detached_afternm(unsigned char *c,
                                                   unsigned char *mac,
                                                   unsigned long long *maclen_p,
                                                   const unsigned char *m,
                                                   unsigned long long mlen,
                                                   const unsigned char *ad,
                                                   unsigned long long adlen,
                                                   const unsigned char *nsec,
                                                   const unsigned char *npub,
                                                   const crypto_aead_aes256gcm_state *ctx_)
            __attribute__ ((nonnull(1, 2, 9, 10)));

SODIUM_EXPORT
int crypto_aead_aes256gcm_decrypt_detached_afternm(unsigned char *m,
                                                   unsigned char *nsec,
                                                   const unsigned char *c,
                                                   unsigned long long clen,
                                                   const unsigned char *mac,
                                                   const unsigned char *ad,
                                                   unsigned long long adlen,
                                                   const unsigned char *npub,
                                                   const crypto_aead_aes256gcm_state *ctx_)
            __attribute__ ((warn_unused_result)) __attribute__ ((nonnull(3, 5, 8, 9)));

SODIUM_EXPORT
void crypto_aead_aes256gcm_keygen(unsigned char k[crypto_aead_aes256gcm_KEYBYTES])
            __attribute__ ((nonnull));

#ifdef __cplusplus
}
#endif

#endif
