#ifndef crypto_secretstream_xchacha20poly1305_H
#define crypto_secretstream_xchacha20poly1305_H

#include <stddef.h>

#include "crypto_aead_xchacha20poly1305.h"
#include "crypto_stream_chacha20.h"
#include "export.h"

#ifdef __cplusplus
# ifdef __GNUC__
#  pragma GCC diagnostic ignored "-Wlong-long"
# endif
extern "C" {
#endif

#define crypto_secretstream_xchacha20poly1305_ABYTES \
    (1U + crypto_aead_xchacha20poly1305_ietf_ABYTES)
SODIUM_EXPORT
size_t crypto_secretstream_xchacha20poly1305_abytes(void);

#define crypto_secretstream_xchacha20poly1305_HEADERBYTES \
    crypto_aead_xchacha20poly1305_ietf_NPUBBYTES
SODIUM_EXPORT
size_t crypto_secretstream_xchacha20poly1305_headerbytes(void);

#define crypto_secretstream_xchacha20poly1305_KEYBYTES \
    crypto_aead_xchacha20poly1305_ietf_KEYBYTES
SODIUM_EXPORT
size_t crypto_secretstream_xchacha20poly1305_keybytes(void);

#define crypto_secretstream_xchacha20poly1305_MESSAGEBYTES_MAX \
    SODIUM_MIN(SODIUM_SIZE_MAX - crypto_secretstream_xchacha20poly1305_ABYTES, \
              (64ULL * ((1ULL << 32) - 2ULL)))
SODIUM_EXPORT
size_t crypto_secretstream_xchacha20poly1305_messagebytes_max(void);

#define crypto_secretstream_xchacha20poly1305_TAG_MESSAGE 0x00
SODIUM_EXPORT
unsigned char crypto_secretstream_xchacha20poly1305_tag_message(void);

#define crypto_secretstream_xchacha20poly1305_TAG_PUSH    0x01
SODIUM_EXPORT
unsigned char crypto_secretstream_xchacha20poly1305_tag_push(void);

#define crypto_secretstream_xchacha20poly1305_TAG_REKEY   0x02
SODIUM_EXPORT
unsigned char crypto_secretstream_xchacha20poly1305_tag_rekey(void);

#define crypto_secretstream_xchacha20poly1305_TAG_FINAL \
    (crypto_secretstream_xchacha20poly1305_TAG_PUSH | \
     crypto_secretstream_xchacha20poly1305_TAG_REKEY)
SODIUM_EXPORT
unsigned char crypto_secretstream_xchacha20poly1305_tag_final(void);

typedef struct crypto_secretstream_xchacha20poly1305_state {
    unsigned char k[crypto_stream_chacha20_ietf_KEYBYTES];
    unsigned char nonce[crypto_stream_chacha20_ietf_NONCEBYTES];
    unsigned char _pad[8];
} crypto_secretstream_xchacha20poly1305_state;

SODIUM_EXPORT
size_t crypto_secretstream_xchacha20poly1305_statebytes(void);

SODIUM_EXPORT
void crypto_secretstream_xchacha20poly1305_keygen
   (unsigned char k[crypto_secretstream_xchacha20poly1305_KEYBYTES])
            __attribute__ ((nonnull));

SODIUM_EXPORT
int crypto_secretstream_xchacha20poly1305_init_push
   (crypto_secretstream_xchacha20poly1305_state *state,
    unsigned char header[crypto_secretstream_xchacha20poly1305_HEADERBYTES],
    const unsigned char k[crypto_secretstream_xchacha20poly1305_KEYBYTES])
            __attribute__ ((nonnull));

SODIUM_EXPORT
int crypto_secretstream_xchacha20poly1305_push
   (crypto_secretstream_xchacha20poly1305_state *state,
    unsigned char *c, unsigned long long *clen_p,
    const unsigned char *m, unsigned long long mlen,
    const unsigned char *ad, unsigned long long adlen, unsigned char tag)
            __attribute__ ((nonnull(1)));

SODIUM_EXPORT
int crypto_secretstream_xchacha20poly1305_init_pull
   (crypto_secretstream_xchacha20poly1305_state *state,
    const unsigned char header[crypto_secretstream_xchacha20poly1305_HEADERBYTES],
    const unsigned char k[crypto_secretstream_xchacha20poly1305_KEYBYTES])
            __attribute__ ((nonnull));

SODIUM_EXPORT
int crypto_secretstream_xchacha20poly1305_pull
   (crypto_secretstream_xchacha20poly1305_state *state,
    unsigned char *m, unsigned long long *mlen_p, unsigned char *tag_p,
    const unsigned char *c, unsigned long long clen,
    const unsigned char *ad, unsigned long long adlen)
            __attribute__ ((nonnull(1)));

SODIUM_EXPORT
void crypto_secretstream_xchacha20poly1305_rekey
    (crypto_secretstream_xchacha20poly1305_state *state);

#ifdef __cplusplus
}
#endif

#endif
