#ifndef crypto_pwhash_argon2id_H
#define crypto_pwhash_argon2id_H

#include <limits.h>
#include <stddef.h>
#include <stdint.h>

#include "export.h"

#ifdef __cplusplus
# ifdef __GNUC__
#  pragma GCC diagnostic ignored "-Wlong-long"
# endif
extern "C" {
#endif

#define crypto_pwhash_argon2id_ALG_ARGON2ID13 2
SODIUM_EXPORT
int crypto_pwhash_argon2id_alg_argon2id13(void);

#define crypto_pwhash_argon2id_BYTES_MIN 16U
SODIUM_EXPORT
size_t crypto_pwhash_argon2id_bytes_min(void);

#define crypto_pwhash_argon2id_BYTES_MAX SODIUM_MIN(SODIUM_SIZE_MAX, 4294967295U)
SODIUM_EXPORT
size_t crypto_pwhash_argon2id_bytes_max(void);

#define crypto_pwhash_argon2id_PASSWD_MIN 0U
SODIUM_EXPORT
size_t crypto_pwhash_argon2id_passwd_min(void);

#define crypto_pwhash_argon2id_PASSWD_MAX 4294967295U
SODIUM_EXPORT
size_t crypto_pwhash_argon2id_passwd_max(void);

#define crypto_pwhash_argon2id_SALTBYTES 16U
SODIUM_EXPORT
size_t crypto_pwhash_argon2id_saltbytes(void);

#define crypto_pwhash_argon2id_STRBYTES 128U
SODIUM_EXPORT
size_t crypto_pwhash_argon2id_strbytes(void);

#define crypto_pwhash_argon2id_STRPREFIX "$argon2id$"
SODIUM_EXPORT
const char *crypto_pwhash_argon2id_strprefix(void);

#define crypto_pwhash_argon2id_OPSLIMIT_MIN 1U
SODIUM_EXPORT
size_t crypto_pwhash_argon2id_opslimit_min(void);

#define crypto_pwhash_argon2id_OPSLIMIT_MAX 4294967295U
SODIUM_EXPORT
size_t crypto_pwhash_argon2id_opslimit_max(void);

#define crypto_pwhash_argon2id_MEMLIMIT_MIN 8192U
SODIUM_EXPORT
size_t crypto_pwhash_argon2id_memlimit_min(void);

#define crypto_pwhash_argon2id_MEMLIMIT_MAX \
    ((SIZE_MAX >= 4398046510080U) ? 4398046510080U : (SIZE_MAX >= 2147483648U) ? 2147483648U : 32768U)
SODIUM_EXPORT
size_t crypto_pwhash_argon2id_memlimit_max(void);

#define crypto_pwhash_argon2id_OPSLIMIT_INTERACTIVE 2U
SODIUM_EXPORT
size_t crypto_pwhash_argon2id_opslimit_interactive(void);

#define crypto_pwhash_argon2id_MEMLIMIT_INTERACTIVE 67108864U
SODIUM_EXPORT
size_t crypto_pwhash_argon2id_memlimit_interactive(void);

#define crypto_pwhash_argon2id_OPSLIMIT_MODERATE 3U
SODIUM_EXPORT
size_t crypto_pwhash_argon2id_opslimit_moderate(void);

#define crypto_pwhash_argon2id_MEMLIMIT_MODERATE 268435456U
SODIUM_EXPORT
size_t crypto_pwhash_argon2id_memlimit_moderate(void);

#define crypto_pwhash_argon2id_OPSLIMIT_SENSITIVE 4U
SODIUM_EXPORT
size_t crypto_pwhash_argon2id_opslimit_sensitive(void);

#define crypto_pwhash_argon2id_MEMLIMIT_SENSITIVE 1073741824U
SODIUM_EXPORT
size_t crypto_pwhash_argon2id_memlimit_sensitive(void);

SODIUM_EXPORT
int crypto_pwhash_argon2id(unsigned char * const out,
                           unsigned long long outlen,
                           const char * const passwd,
                           unsigned long long passwdlen,
                           const unsigned char * const salt,
                           unsigned long long opslimit, size_t memlimit,
                           int alg)
            __attribute__ ((warn_unused_result)) __attribute__ ((nonnull));

SODIUM_EXPORT
int crypto_pwhash_argon2id_str(char out[crypto_pwhash_argon2id_STRBYTES],
                               const char * const passwd,
                               unsigned long long passwdlen,
                               unsigned long long opslimit, size_t memlimit)
            __attribute__ ((warn_unused_result)) __attribute__ ((nonnull));

SODIUM_EXPORT
int crypto_pwhash_argon2id_str_verify(const char str[crypto_pwhash_argon2id_STRBYTES],
                                      const char * const passwd,
                                      unsigned long long passwdlen)
            __attribute__ ((warn_unused_result))  __attribute__ ((nonnull));

SODIUM_EXPORT
int crypto_pwhash_argon2id_str_needs_rehash(const char str[crypto_pwhash_argon2id_STRBYTES],
                                            unsigned long long opslimit, size_t memlimit)
            __attribute__ ((warn_unused_result))  __attribute__ ((nonnull));

#ifdef __cplusplus
}
#endif

#endif
