
#ifndef sodium_utils_H
#define sodium_utils_H

#include <stddef.h>

#include "export.h"

#ifdef __cplusplus
extern "C" {
#endif

#ifndef SODIUM_C99
# if defined(__cplusplus) || !defined(__STDC_VERSION__) || __STDC_VERSION__ < 199901L
#  define SODIUM_C99(X)
# else
#  define SODIUM_C99(X) X
# endif
#endif

SODIUM_EXPORT
void sodium_memzero(void * const pnt, const size_t len) __attribute__ ((nonnull));

SODIUM_EXPORT
void sodium_stackzero(const size_t len);

/*
 * WARNING: sodium_memcmp() must be used to verify if two secret keys
 * are equal, in constant time.
 * It returns 0 if the keys are equal, and -1 if they differ.
 * This function is not designed for lexicographical comparisons.
 */
SODIUM_EXPORT
int sodium_memcmp(const void * const b1_, const void * const b2_, size_t len)
            __attribute__ ((warn_unused_result)) __attribute__ ((nonnull));

/*
 * sodium_compare() returns -1 if b1_ < b2_, 1 if b1_ > b2_ and 0 if b1_ == b2_
 * It is suitable for lexicographical comparisons, or to compare nonces
 * and counters stored in little-endian format.
 * However, it is slower than sodium_memcmp().
 */
SODIUM_EXPORT
int sodium_compare(const unsigned char *b1_, const unsigned char *b2_,
                   size_t len)
            __attribute__ ((warn_unused_result)) __attribute__ ((nonnull));

SODIUM_EXPORT
int sodium_is_zero(const unsigned char *n, const size_t nlen);

SODIUM_EXPORT
void sodium_increment(unsigned char *n, const size_t nlen);

SODIUM_EXPORT
void sodium_add(unsigned char *a, const unsigned char *b, const size_t len)
            __attribute__ ((nonnull));

SODIUM_EXPORT
void sodium_sub(unsigned char *a, const unsigned char *b, const size_t len)
            __attribute__ ((nonnull));

SODIUM_EXPORT
char *sodium_bin2hex(char * const hex, const size_t hex_maxlen,
                     const unsigned char * const bin, const size_t bin_len)
            __attribute__ ((nonnull));

SODIUM_EXPORT
int sodium_hex2bin(unsigned char * const bin, const size_t bin_maxlen,
                   const char * const hex, const size_t hex_len,
                   const char * const ignore, size_t * const bin_len,
                   const char ** const hex_end)
            __attribute__ ((nonnull(1, 3)));

#define sodium_base64_VARIANT_ORIGINAL            1
#define sodium_base64_VARIANT_ORIGINAL_NO_PADDING 3
#define sodium_base64_VARIANT_URLSAFE             5
#define sodium_base64_VARIANT_URLSAFE_NO_PADDING  7

/*
 * Computes the required length to encode BIN_LEN bytes as a base64 string
 * using the given variant. The computed length includes a trailing \0.
 */
#define sodium_base64_ENCODED_LEN(BIN_LEN, VARIANT) \
    (((BIN_LEN) / 3U) * 4U + \
    ((((BIN_LEN) - ((BIN_LEN) / 3U) * 3U) | (((BIN_LEN) - ((BIN_LEN) / 3U) * 3U) >> 1)) & 1U) * \
     (4U - (~((((VARIANT) & 2U) >> 1) - 1U) & (3U - ((BIN_LEN) - ((BIN_LEN) / 3U) * 3U)))) + 1U)

SODIUM_EXPORT
size_t sodium_base64_encoded_len(const size_t bin_len, const int variant);

SODIUM_EXPORT
char *sodium_bin2base64(char * const b64, const size_t b64_maxlen,
                        const unsigned char * const bin, const size_t bin_len,
                        const int variant) __attribute__ ((nonnull));

SODIUM_EXPORT
int sodium_base642bin(unsigned char * const bin, const size_t bin_maxlen,
                      const char * const b64, const size_t b64_len,
                      const char * const ignore, size_t * const bin_len,
                      const char ** const b64_end, const int variant)
            __attribute__ ((nonnull(1, 3)));

SODIUM_EXPORT
int sodium_mlock(void * const addr, const size_t len)
            __attribute__ ((nonnull));

SODIUM_EXPORT
int sodium_munlock(void * const addr, const size_t len)
            __attribute__ ((nonnull));

/* WARNING: sodium_malloc() and sodium_allocarray() are not general-purpose
 * allocation functions.
 *
 * They return a pointer to a region filled with 0xd0 bytes, immediately
 * followed by a guard page.
 * As a result, accessing a single byte after the requested allocation size
 * will intentionally trigger a segmentation fault.
 *
 * A canary and an additional guard page placed before the beginning of the
 * region may also kill the process if a buffer underflow is detected.
 *
 * The memory layout is:
 * [unprotected region size (read only)][guard page (no access)][unprotected pages (read/write)][guard page (no access)]
 * With the layout of the unprotected pages being:
 * [optional padding][16-bytes canary][user region]
 *
 * However:
 * - These functions are significantly slower than standard functions
 * - Each allocation requires 3 or 4 additional pages
 * - The returned address will not be aligned if the allocation size is not
 *   a multiple of the required alignment. For this reason, these functions
 *   are designed to store data, such as secret keys and messages.
 *
 * sodium_malloc() can be used to allocate any libsodium data structure.
 *
 * The crypto_generichash_state structure is packed and its length is
 * either 357 or 361 bytes. For this reason, when using sodium_malloc() to
 * allocate a crypto_generichash_state structure, padding must be added in
 * order to ensure proper alignment. crypto_generichash_statebytes()
 * returns the rounded up structure size, and should be preferred to sizeof():
 * state = sodium_malloc(crypto_generichash_statebytes());
 */

SODIUM_EXPORT
void *sodium_malloc(const size_t size)
            __attribute__ ((malloc));

SODIUM_EXPORT
void *sodium_allocarray(size_t count, size_t size)
            __attribute__ ((malloc));

SODIUM_EXPORT
void sodium_free(void *ptr);

SODIUM_EXPORT
int sodium_mprotect_noaccess(void *ptr) __attribute__ ((nonnull));

SODIUM_EXPORT
int sodium_mprotect_readonly(void *ptr) __attribute__ ((nonnull));

SODIUM_EXPORT
int sodium_mprotect_readwrite(void *ptr) __attribute__ ((nonnull));

SODIUM_EXPORT
int sodium_pad(size_t *padded_buflen_p, unsigned char *buf,
               size_t unpadded_buflen, size_t blocksize, size_t max_buflen)
            __attribute__ ((nonnull(2)));

SODIUM_EXPORT
int sodium_unpad(size_t *unpadded_buflen_p, const unsigned char *buf,
                 size_t padded_buflen, size_t blocksize)
            __attribute__ ((nonnull(2)));

/* -------- */

int _sodium_alloc_init(void);

#ifdef __cplusplus
}
#endif

#endif
