#ifndef crypto_hash_sha512_H
#define crypto_hash_sha512_H

/*
 * WARNING: Unless you absolutely need to use SHA512 for interoperatibility,
 * purposes, you might want to consider crypto_generichash() instead.
 * Unlike SHA512, crypto_generichash() is not vulnerable to length
 * extension attacks.
 */

#include <stddef.h>
#include <stdint.h>
#include <stdlib.h>

#include "export.h"

#ifdef __cplusplus
# ifdef __GNUC__
#  pragma GCC diagnostic ignored "-Wlong-long"
# endif
extern "C" {
#endif

typedef struct crypto_hash_sha512_state {
    uint64_t state[8];
    uint64_t count[2];
    uint8_t  buf[128];
} crypto_hash_sha512_state;

SODIUM_EXPORT
size_t crypto_hash_sha512_statebytes(void);

#define crypto_hash_sha512_BYTES 64U
SODIUM_EXPORT
size_t crypto_hash_sha512_bytes(void);

SODIUM_EXPORT
int crypto_hash_sha512(unsigned char *out, const unsigned char *in,
                       unsigned long long inlen) __attribute__ ((nonnull));

SODIUM_EXPORT
int crypto_hash_sha512_init(crypto_hash_sha512_state *state)
            __attribute__ ((nonnull));

SODIUM_EXPORT
int crypto_hash_sha512_update(crypto_hash_sha512_state *state,
                              const unsigned char *in,
                              unsigned long long inlen)
            __attribute__ ((nonnull));

SODIUM_EXPORT
int crypto_hash_sha512_final(crypto_hash_sha512_state *state,
                             unsigned char *out)
            __attribute__ ((nonnull));

#ifdef __cplusplus
}
#endif

#endif
