#ifndef crypto_stream_chacha20_H
#define crypto_stream_chacha20_H

/*
 *  WARNING: This is just a stream cipher. It is NOT authenticated encryption.
 *  While it provides some protection against eavesdropping, it does NOT
 *  provide any security against active attacks.
 *  Unless you know what you're doing, what you are looking for is probably
 *  the crypto_box functions.
 */

#include <stddef.h>
#include <stdint.h>
#include "export.h"

#ifdef __cplusplus
# ifdef __GNUC__
#  pragma GCC diagnostic ignored "-Wlong-long"
# endif
extern "C" {
#endif

#define crypto_stream_chacha20_KEYBYTES 32U
SODIUM_EXPORT
size_t crypto_stream_chacha20_keybytes(void);

#define crypto_stream_chacha20_NONCEBYTES 8U
SODIUM_EXPORT
size_t crypto_stream_chacha20_noncebytes(void);

#define crypto_stream_chacha20_MESSAGEBYTES_MAX SODIUM_SIZE_MAX
SODIUM_EXPORT
size_t crypto_stream_chacha20_messagebytes_max(void);

/* ChaCha20 with a 64-bit nonce and a 64-bit counter, as originally designed */

SODIUM_EXPORT
int crypto_stream_chacha20(unsigned char *c, unsigned long long clen,
                           const unsigned char *n, const unsigned char *k)
            __attribute__ ((nonnull));

SODIUM_EXPORT
int crypto_stream_chacha20_xor(unsigned char *c, const unsigned char *m,
                               unsigned long long mlen, const unsigned char *n,
                               const unsigned char *k)
            __attribute__ ((nonnull));

SODIUM_EXPORT
int crypto_stream_chacha20_xor_ic(unsigned char *c, const unsigned char *m,
                                  unsigned long long mlen,
                                  const unsigned char *n, uint64_t ic,
                                  const unsigned char *k)
            __attribute__ ((nonnull));

SODIUM_EXPORT
void crypto_stream_chacha20_keygen(unsigned char k[crypto_stream_chacha20_KEYBYTES])
            __attribute__ ((nonnull));

/* ChaCha20 with a 96-bit nonce and a 32-bit counter (IETF) */

#define crypto_stream_chacha20_ietf_KEYBYTES 32U
SODIUM_EXPORT
size_t crypto_stream_chacha20_ietf_keybytes(void);

#define crypto_stream_chacha20_ietf_NONCEBYTES 12U
SODIUM_EXPORT
size_t crypto_stream_chacha20_ietf_noncebytes(void);

#define crypto_stream_chacha20_ietf_MESSAGEBYTES_MAX \
    SODIUM_MIN(SODIUM_SIZE_MAX, 64ULL * (1ULL << 32))
SODIUM_EXPORT
size_t crypto_stream_chacha20_ietf_messagebytes_max(void);

SODIUM_EXPORT
int crypto_stream_chacha20_ietf(unsigned char *c, unsigned long long clen,
                                const unsigned char *n, const unsigned char *k)
            __attribute__ ((nonnull));

SODIUM_EXPORT
int crypto_stream_chacha20_ietf_xor(unsigned char *c, const unsigned char *m,
                                    unsigned long long mlen, const unsigned char *n,
                                    const unsigned char *k)
            __attribute__ ((nonnull));

SODIUM_EXPORT
int crypto_stream_chacha20_ietf_xor_ic(unsigned char *c, const unsigned char *m,
                                       unsigned long long mlen,
                                       const unsigned char *n, uint32_t ic,
                                       const unsigned char *k)
            __attribute__ ((nonnull));

SODIUM_EXPORT
void crypto_stream_chacha20_ietf_keygen(unsigned char k[crypto_stream_chacha20_ietf_KEYBYTES])
            __attribute__ ((nonnull));

/* Aliases */

#define crypto_stream_chacha20_IETF_KEYBYTES crypto_stream_chacha20_ietf_KEYBYTES
#define crypto_stream_chacha20_IETF_NONCEBYTES crypto_stream_chacha20_ietf_NONCEBYTES
#define crypto_stream_chacha20_IETF_MESSAGEBYTES_MAX crypto_stream_chacha20_ietf_MESSAGEBYTES_MAX

#ifdef __cplusplus
}
#endif

#endif
