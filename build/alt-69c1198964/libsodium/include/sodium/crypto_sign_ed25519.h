#ifndef crypto_sign_ed25519_H
#define crypto_sign_ed25519_H

#include <stddef.h>
#include "crypto_hash_sha512.h"
#include "export.h"

#ifdef __cplusplus
# ifdef __GNUC__
#  pragma GCC diagnostic ignored "-Wlong-long"
# endif
extern "C" {
#endif

typedef struct crypto_sign_ed25519ph_state {
    crypto_hash_sha512_state hs;
} crypto_sign_ed25519ph_state;

SODIUM_EXPORT
size_t crypto_sign_ed25519ph_statebytes(void);

#define crypto_sign_ed25519_BYTES 64U
SODIUM_EXPORT
size_t crypto_sign_ed25519_bytes(void);

#define crypto_sign_ed25519_SEEDBYTES 32U
SODIUM_EXPORT
size_t crypto_sign_ed25519_seedbytes(void);

#define crypto_sign_ed25519_PUBLICKEYBYTES 32U
SODIUM_EXPORT
size_t crypto_sign_ed25519_publickeybytes(void);

#define crypto_sign_ed25519_SECRETKEYBYTES (32U + 32U)
SODIUM_EXPORT
size_t crypto_sign_ed25519_secretkeybytes(void);

#define crypto_sign_ed25519_MESSAGEBYTES_MAX (SODIUM_SIZE_MAX - crypto_sign_ed25519_BYTES)
SODIUM_EXPORT
size_t crypto_sign_ed25519_messagebytes_max(void);

SODIUM_EXPORT
int crypto_sign_ed25519(unsigned char *sm, unsigned long long *smlen_p,
                        const unsigned char *m, unsigned long long mlen,
                        const unsigned char *sk)
            __attribute__ ((nonnull(1, 3, 5)));

SODIUM_EXPORT
int crypto_sign_ed25519_open(unsigned char *m, unsigned long long *mlen_p,
                             const unsigned char *sm, unsigned long long smlen,
                             const unsigned char *pk)
            __attribute__ ((warn_unused_result)) __attribute__ ((nonnull(3, 5)));

SODIUM_EXPORT
int crypto_sign_ed25519_detached(unsigned char *sig,
                                 unsigned long long *siglen_p,
                                 const unsigned char *m,
                                 unsigned long long mlen,
                                 const unsigned char *sk)
            __attribute__ ((nonnull(1, 3)));

SODIUM_EXPORT
int crypto_sign_ed25519_verify_detached(const unsigned char *sig,
                                        const unsigned char *m,
                                        unsigned long long mlen,
                                        const unsigned char *pk)
            __attribute__ ((warn_unused_result));

SODIUM_EXPORT
int crypto_sign_ed25519_bv_compatible_verify_detached(const unsigned char *sig,
                                        const unsigned char *m,
                                        unsigned long long mlen,
                                        const unsigned char *pk)
            __attribute__ ((warn_unused_result));

SODIUM_EXPORT
int crypto_sign_ed25519_keypair(unsigned char *pk, unsigned char *sk)
            __attribute__ ((nonnull));

SODIUM_EXPORT
int crypto_sign_ed25519_seed_keypair(unsigned char *pk, unsigned char *sk,
                                     const unsigned char *seed)
            __attribute__ ((nonnull));

SODIUM_EXPORT
int crypto_sign_ed25519_pk_to_curve25519(unsigned char *curve25519_pk,
                                         const unsigned char *ed25519_pk)
            __attribute__ ((warn_unused_result)) __attribute__ ((nonnull));

SODIUM_EXPORT
int crypto_sign_ed25519_sk_to_curve25519(unsigned char *curve25519_sk,
                                         const unsigned char *ed25519_sk)
            __attribute__ ((nonnull));

SODIUM_EXPORT
int crypto_sign_ed25519_sk_to_seed(unsigned char *seed,
                                   const unsigned char *sk)
            __attribute__ ((nonnull));

SODIUM_EXPORT
int crypto_sign_ed25519_sk_to_pk(unsigned char *pk, const unsigned char *sk)
            __attribute__ ((nonnull));

SODIUM_EXPORT
int crypto_sign_ed25519ph_init(crypto_sign_ed25519ph_state *state)
            __attribute__ ((nonnull));

SODIUM_EXPORT
int crypto_sign_ed25519ph_update(crypto_sign_ed25519ph_state *state,
                                 const unsigned char *m,
                                 unsigned long long mlen)
            __attribute__ ((nonnull));

SODIUM_EXPORT
int crypto_sign_ed25519ph_final_create(crypto_sign_ed25519ph_state *state,
                                       unsigned char *sig,
                                       unsigned long long *siglen_p,
                                       const unsigned char *sk)
            __attribute__ ((nonnull));

SODIUM_EXPORT
int crypto_sign_ed25519ph_final_verify(crypto_sign_ed25519ph_state *state,
                                       const unsigned char *sig,
                                       const unsigned char *pk)
            __attribute__ ((warn_unused_result)) __attribute__ ((nonnull));

SODIUM_EXPORT
int crypto_sign_ed25519ph_final_bv_compatible_verify(crypto_sign_ed25519ph_state *state,
                                       const unsigned char *sig,
                                       const unsigned char *pk)
            __attribute__ ((warn_unused_result)) __attribute__ ((nonnull));

#ifdef __cplusplus
}
#endif

#endif
