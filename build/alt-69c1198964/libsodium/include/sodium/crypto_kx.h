#ifndef crypto_kx_H
#define crypto_kx_H

#include <stddef.h>

#include "export.h"

#ifdef __cplusplus
# ifdef __GNUC__
#  pragma GCC diagnostic ignored "-Wlong-long"
# endif
extern "C" {
#endif

#define crypto_kx_PUBLICKEYBYTES 32
SODIUM_EXPORT
size_t crypto_kx_publickeybytes(void);

#define crypto_kx_SECRETKEYBYTES 32
SODIUM_EXPORT
size_t crypto_kx_secretkeybytes(void);

#define crypto_kx_SEEDBYTES 32
SODIUM_EXPORT
size_t crypto_kx_seedbytes(void);

#define crypto_kx_SESSIONKEYBYTES 32
SODIUM_EXPORT
size_t crypto_kx_sessionkeybytes(void);

#define crypto_kx_PRIMITIVE "x25519blake2b"
SODIUM_EXPORT
const char *crypto_kx_primitive(void);

SODIUM_EXPORT
int crypto_kx_seed_keypair(unsigned char pk[crypto_kx_PUBLICKEYBYTES],
                           unsigned char sk[crypto_kx_SECRETKEYBYTES],
                           const unsigned char seed[crypto_kx_SEEDBYTES])
            __attribute__ ((nonnull));

SODIUM_EXPORT
int crypto_kx_keypair(unsigned char pk[crypto_kx_PUBLICKEYBYTES],
                      unsigned char sk[crypto_kx_SECRETKEYBYTES])
            __attribute__ ((nonnull));

SODIUM_EXPORT
int crypto_kx_client_session_keys(unsigned char rx[crypto_kx_SESSIONKEYBYTES],
                                  unsigned char tx[crypto_kx_SESSIONKEYBYTES],
                                  const unsigned char client_pk[crypto_kx_PUBLICKEYBYTES],
                                  const unsigned char client_sk[crypto_kx_SECRETKEYBYTES],
                                  const unsigned char server_pk[crypto_kx_PUBLICKEYBYTES])
            __attribute__ ((warn_unused_result))  __attribute__ ((nonnull(3, 4, 5)));

SODIUM_EXPORT
int crypto_kx_server_session_keys(unsigned char rx[crypto_kx_SESSIONKEYBYTES],
                                  unsigned char tx[crypto_kx_SESSIONKEYBYTES],
                                  const unsigned char server_pk[crypto_kx_PUBLICKEYBYTES],
                                  const unsigned char server_sk[crypto_kx_SECRETKEYBYTES],
                                  const unsigned char client_pk[crypto_kx_PUBLICKEYBYTES])
            __attribute__ ((warn_unused_result))  __attribute__ ((nonnull(3, 4, 5)));

#ifdef __cplusplus
}
#endif

#endif
