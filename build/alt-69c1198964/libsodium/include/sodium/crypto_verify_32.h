#ifndef crypto_verify_32_H
#define crypto_verify_32_H

#include <stddef.h>
#include "export.h"

#ifdef __cplusplus
extern "C" {
#endif

#define crypto_verify_32_BYTES 32U
SODIUM_EXPORT
size_t crypto_verify_32_bytes(void);

SODIUM_EXPORT
int crypto_verify_32(const unsigned char *x, const unsigned char *y)
            __attribute__ ((warn_unused_result)) __attribute__ ((nonnull));

#ifdef __cplusplus
}
#endif

#endif
