#ifndef crypto_stream_H
#define crypto_stream_H

/*
 *  WARNING: This is just a stream cipher. It is NOT authenticated encryption.
 *  While it provides some protection against eavesdropping, it does NOT
 *  provide any security against active attacks.
 *  Unless you know what you're doing, what you are looking for is probably
 *  the crypto_box functions.
 */

#include <stddef.h>

#include "crypto_stream_xsalsa20.h"
#include "export.h"

#ifdef __cplusplus
# ifdef __GNUC__
#  pragma GCC diagnostic ignored "-Wlong-long"
# endif
extern "C" {
#endif

#define crypto_stream_KEYBYTES crypto_stream_xsalsa20_KEYBYTES
SODIUM_EXPORT
size_t  crypto_stream_keybytes(void);

#define crypto_stream_NONCEBYTES crypto_stream_xsalsa20_NONCEBYTES
SODIUM_EXPORT
size_t  crypto_stream_noncebytes(void);

#define crypto_stream_MESSAGEBYTES_MAX crypto_stream_xsalsa20_MESSAGEBYTES_MAX
SODIUM_EXPORT
size_t  crypto_stream_messagebytes_max(void);

#define crypto_stream_PRIMITIVE "xsalsa20"
SODIUM_EXPORT
const char *crypto_stream_primitive(void);

SODIUM_EXPORT
int crypto_stream(unsigned char *c, unsigned long long clen,
                  const unsigned char *n, const unsigned char *k)
            __attribute__ ((nonnull));

SODIUM_EXPORT
int crypto_stream_xor(unsigned char *c, const unsigned char *m,
                      unsigned long long mlen, const unsigned char *n,
                      const unsigned char *k)
            __attribute__ ((nonnull));

SODIUM_EXPORT
void crypto_stream_keygen(unsigned char k[crypto_stream_KEYBYTES])
            __attribute__ ((nonnull));

#ifdef __cplusplus
}
#endif

#endif
