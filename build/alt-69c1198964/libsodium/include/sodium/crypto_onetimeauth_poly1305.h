#ifndef crypto_onetimeauth_poly1305_H
#define crypto_onetimeauth_poly1305_H

#ifdef __cplusplus
# ifdef __GNUC__
#  pragma GCC diagnostic ignored "-Wlong-long"
# endif
extern "C" {
#endif

#include <stdint.h>
#include <stdio.h>
#include <stdlib.h>

#include <sys/types.h>

#include "export.h"

typedef struct CRYPTO_ALIGN(16) crypto_onetimeauth_poly1305_state {
    unsigned char opaque[256];
} crypto_onetimeauth_poly1305_state;

SODIUM_EXPORT
size_t crypto_onetimeauth_poly1305_statebytes(void);

#define crypto_onetimeauth_poly1305_BYTES 16U
SODIUM_EXPORT
size_t crypto_onetimeauth_poly1305_bytes(void);

#define crypto_onetimeauth_poly1305_KEYBYTES 32U
SODIUM_EXPORT
size_t crypto_onetimeauth_poly1305_keybytes(void);

SODIUM_EXPORT
int crypto_onetimeauth_poly1305(unsigned char *out,
                                const unsigned char *in,
                                unsigned long long inlen,
                                const unsigned char *k)
            __attribute__ ((nonnull));

SODIUM_EXPORT
int crypto_onetimeauth_poly1305_verify(const unsigned char *h,
                                       const unsigned char *in,
                                       unsigned long long inlen,
                                       const unsigned char *k)
            __attribute__ ((warn_unused_result)) __attribute__ ((nonnull));

SODIUM_EXPORT
int crypto_onetimeauth_poly1305_init(crypto_onetimeauth_poly1305_state *state,
                                     const unsigned char *key)
            __attribute__ ((nonnull));

SODIUM_EXPORT
int crypto_onetimeauth_poly1305_update(crypto_onetimeauth_poly1305_state *state,
                                       const unsigned char *in,
                                       unsigned long long inlen)
            __attribute__ ((nonnull));

SODIUM_EXPORT
int crypto_onetimeauth_poly1305_final(crypto_onetimeauth_poly1305_state *state,
                                      unsigned char *out)
            __attribute__ ((nonnull));

SODIUM_EXPORT
void crypto_onetimeauth_poly1305_keygen(unsigned char k[crypto_onetimeauth_poly1305_KEYBYTES])
            __attribute__ ((nonnull));

#ifdef __cplusplus
}
#endif

#endif
