#!/bin/bash
# usage: survey.sh <budget_s> <seed> [tier]   (analysis aid; runs 16 workers in survey mode and prints violation classes)
B=${1:-20}; SEED=${2:-1}; TIER=${3:-quick}
D=$(mktemp -d /dev/shm/triesim-survey-XXXX)
for w in $(seq 0 15); do
  TRIESIM_SURVEY=1 VERIF_PROP=C17 VERIF_TIER=$TIER VERIF_SEED=$SEED VERIF_WORKER=$w VERIF_NWORKERS=16 VERIF_BUDGET_S=$B VERIF_OUT=$D VERIF_SCRATCH=$D GOMAXPROCS=2 ${BIN:-/verif/build/triesim.test} -test.run '^TestWorker$' -test.count 1 -test.timeout 0 > $D/w$w.log 2>&1 &
done
wait
python3 - $D <<'PY'
import json,sys,re,collections,glob
ev=0; c=collections.Counter(); ex={}; stats=collections.Counter()
for f in glob.glob(sys.argv[1]+'/worker-*.json'):
    w=json.load(open(f)); ev+=w['evaluations']
    if w.get('harness_error'): print('HARNESS', w['harness_error'])
    for k,v in w['stats'].items(): stats[k]+=v
    for k in (w['known'] or []):
        cfg,d=k['detail'].split(' | ',1)
        d2=re.sub(r'step \d+','step N',d); d2=re.sub(r'[0-9a-f]{6}\.\.[0-9a-f]{4}','KEY',d2); d2=re.sub(r'\b[0-9a-f]{2,12}\b(?= (\[|->|:|returned))','KEY',d2)
        d2=re.sub(r'page \d+','page P',d2); d2=re.sub(r'\(npp=.*','',d2); d2=re.sub(r'RootHash=\w+','RootHash=H',d2); d2=re.sub(r'the \d+-element','the N-element',d2); d2=re.sub(r'is \w{16}','is H',d2)
        key=(k['oracle'],k.get('key',''),d2[:150])
        c[key]+=1; ex.setdefault(key,[]).append(cfg)
print('evaluations',ev)
print({k:v for k,v in stats.items() if k.startswith('survey')})
for k,v in c.most_common(40):
    print(v,k)
    for cfg in ex[k][:3]: print('     ',re.sub(r'Family:|KeyLen:\d+ |Alphabet:\d+ |Ops:\d+ |Profile:\d+ ','',cfg))
PY
rm -rf $D
