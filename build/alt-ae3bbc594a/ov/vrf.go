// Copyright (C) 2019-2026 Algorand Foundation Ltd.
// This file is part of go-algorand
//
// go-algorand is free software: you can redistribute it and/or modify
// it under the terms of the GNU Affero General Public License as
// published by the Free Software Foundation, either version 3 of the
// License, or (at your option) any later version.
//
// go-algorand is distributed in the hope that it will be useful,
// but WITHOUT ANY WARRANTY; without even the implied warranty of
// MERCHANTABILITY or FITNESS FOR A PARTICULAR PURPOSE.  See the
// GNU Affero General Public License for more details.
//
// You should have received a copy of the GNU Affero General Public License
// along with go-algorand.  If not, see <https://www.gnu.org/licenses/>.

package crypto

// #cgo CFLAGS: -Wall -std=c99
// #cgo darwin,amd64 CFLAGS: -I${SRCDIR}/libs/darwin/amd64/include
// #cgo linux,amd64 CFLAGS: -I/verif/build/alt-ae3bbc594a/libsodium/include
// #cgo linux,arm64 CFLAGS: -I${SRCDIR}/libs/linux/arm64/include
// #cgo linux,arm CFLAGS: -I${SRCDIR}/libs/linux/arm/include
// #cgo linux,riscv64 CFLAGS: -I${SRCDIR}/libs/linux/riscv64/include
// #cgo windows,amd64 CFLAGS: -I${SRCDIR}/libs/windows/amd64/include
// #include <stdint.h>
// #include "sodium.h"
import "C"

func init() {
	if C.sodium_init() == -1 {
		panic("sodium_init() failed")
	}
}

// deprecated names + wrappers -- TODO remove

// VRFVerifier is a deprecated name for VrfPubkey
type VRFVerifier = VrfPubkey

// VRFVerifierMaxSize forwards to base implementation since it's expected by the msgp generated MaxSize functions
func VRFVerifierMaxSize() int {
	return VrfPubkeyMaxSize()
}

// VRFProof is a deprecated name for VrfProof
type VRFProof = VrfProof

// VRFSecrets is a wrapper for a VRF keypair. Use *VrfPrivkey instead
type VRFSecrets struct {
	_struct struct{} `codec:""`

	PK VrfPubkey
	SK VrfPrivkey
}

// GenerateVRFSecrets is deprecated, use VrfKeygen or VrfKeygenFromSeed instead
func GenerateVRFSecrets() *VRFSecrets {
	s := new(VRFSecrets)
	s.PK, s.SK = VrfKeygen()
	return s
}

// TODO: Go arrays are copied by value, so any call to e.g. VrfPrivkey.Prove() makes a copy of the secret key that lingers in memory.
// To avoid this, should we instead allocate memory for secret keys here (maybe even in the C heap) and pass around pointers?
// e.g., allocate a privkey with sodium_malloc and have VrfPrivkey be of type unsafe.Pointer?
type (
	// A VrfPrivkey is a private key used for producing VRF proofs.
	// Specifically, we use a 64-byte ed25519 private key (the latter 32-bytes are the precomputed public key)
	VrfPrivkey [64]byte
	// A VrfPubkey is a public key that can be used to verify VRF proofs.
	VrfPubkey [32]byte
	// A VrfProof for a message can be generated with a secret key and verified against a public key, like a signature.
	// Proofs are malleable, however, for a given message and public key, the VRF output that can be computed from a proof is unique.
	VrfProof [80]byte
	// VrfOutput is a 64-byte pseudorandom value that can be computed from a VrfProof.
	// The VRF scheme guarantees that such output will be unique
	VrfOutput [64]byte
)

// VrfKeygenFromSeed deterministically generates a VRF keypair from 32 bytes of (secret) entropy.
func VrfKeygenFromSeed(seed [32]byte) (pub VrfPubkey, priv VrfPrivkey) {
	C.crypto_vrf_keypair_from_seed((*C.uchar)(&pub[0]), (*C.uchar)(&priv[0]), (*C.uchar)(&seed[0]))
	return pub, priv
}

// VrfKeygen generates a random VRF keypair.
func VrfKeygen() (pub VrfPubkey, priv VrfPrivkey) {
	C.crypto_vrf_keypair((*C.uchar)(&pub[0]), (*C.uchar)(&priv[0]))
	return pub, priv
}

// Pubkey returns the public key that corresponds to the given private key.
func (sk VrfPrivkey) Pubkey() (pk VrfPubkey) {
	C.crypto_vrf_sk_to_pk((*C.uchar)(&pk[0]), (*C.uchar)(&sk[0]))
	return pk
}

func (sk VrfPrivkey) proveBytes(msg []byte) (proof VrfProof, ok bool) {
	// &msg[0] will make Go panic if msg is zero length
	m := (*C.uchar)(C.NULL)
	if len(msg) != 0 {
		m = (*C.uchar)(&msg[0])
	}
	ret := C.crypto_vrf_prove((*C.uchar)(&proof[0]), (*C.uchar)(&sk[0]), (*C.uchar)(m), (C.ulonglong)(len(msg)))
	return proof, ret == 0
}

// Prove constructs a VRF Proof for a given Hashable.
// ok will be false if the private key is malformed.
func (sk VrfPrivkey) Prove(message Hashable) (proof VrfProof, ok bool) {
	return sk.proveBytes(HashRep(message))
}

// Hash converts a VRF proof to a VRF output without verifying the proof.
// TODO: Consider removing so that we don't accidentally hash an unverified proof
func (proof VrfProof) Hash() (hash VrfOutput, ok bool) {
	ret := C.crypto_vrf_proof_to_hash((*C.uchar)(&hash[0]), (*C.uchar)(&proof[0]))
	return hash, ret == 0
}

func (pk VrfPubkey) verifyBytes(proof VrfProof, msg []byte) (bool, VrfOutput) {
	var out VrfOutput
	// &msg[0] will make Go panic if msg is zero length
	m := (*C.uchar)(C.NULL)
	if len(msg) != 0 {
		m = (*C.uchar)(&msg[0])
	}
	ret := C.crypto_vrf_verify((*C.uchar)(&out[0]), (*C.uchar)(&pk[0]), (*C.uchar)(&proof[0]), (*C.uchar)(m), (C.ulonglong)(len(msg)))
	return ret == 0, out
}

// IsEmpty returns true if the key is empty/zero'd.
func (pk VrfPubkey) IsEmpty() bool {
	return pk == VrfPubkey{}
}

// Verify checks a VRF proof of a given Hashable. If the proof is valid the pseudorandom VrfOutput will be returned.
// For a given public key and message, there are potentially multiple valid proofs.
// However, given a public key and message, all valid proofs will yield the same output.
// Moreover, the output is indistinguishable from random to anyone without the proof or the secret key.
func (pk VrfPubkey) Verify(p VrfProof, message Hashable) (bool, VrfOutput) {
	return pk.verifyBytes(p, HashRep(message))
}
