module verif

go 1.25.0

toolchain go1.25.3

require github.com/algorand/go-algorand v0.0.0

replace github.com/algorand/go-algorand => /tmp/wt-selfmut-27893

require (
	filippo.io/edwards25519 v1.2.0
	github.com/DataDog/zstd v1.5.7
	github.com/algorand/avm-abi v0.2.0
	github.com/algorand/falcon v0.1.0
	github.com/algorand/go-codec/codec v1.1.10
	github.com/algorand/go-deadlock v0.2.5
	github.com/algorand/go-sumhash v0.1.0
	github.com/algorand/graphtrace v0.1.0
	github.com/algorand/msgp v1.1.64
	github.com/algorand/sortition v1.1.1
	github.com/algorand/websocket v1.4.6
	github.com/aws/aws-sdk-go v1.34.0
	github.com/cockroachdb/pebble v0.0.0-20230807162746-af8c5f279001
	github.com/consensys/gnark-crypto v0.18.1
	github.com/davidlazar/go-crypto v0.0.0-20200604182044-b73af7476f6c
	github.com/dchest/siphash v1.2.1
	github.com/fatih/color v1.13.0
	github.com/getkin/kin-openapi v0.144.0
	github.com/gofrs/flock v0.7.0
	github.com/golang/snappy v0.0.5-0.20231225225746-43d5d4cd4e0e
	github.com/google/go-cmp v0.7.0
	github.com/google/go-querystring v1.0.0
	github.com/google/uuid v1.6.0
	github.com/gorilla/mux v1.8.1
	github.com/hdevalence/ed25519consensus v0.2.0
	github.com/ipfs/go-log v1.0.5
	github.com/ipfs/go-log/v2 v2.9.1
	github.com/jmoiron/sqlx v1.2.0
	github.com/jsimonetti/rtnetlink v1.4.2
	github.com/karalabe/hid v1.0.1-0.20240919124526-821c38d2678e
	github.com/klauspost/cpuid/v2 v2.3.0
	github.com/labstack/echo/v4 v4.13.3
	github.com/libp2p/go-libp2p v0.47.0
	github.com/libp2p/go-libp2p-kad-dht v0.38.0
	github.com/libp2p/go-libp2p-kbucket v0.8.0
	github.com/libp2p/go-libp2p-pubsub v0.15.0
	github.com/libp2p/go-yamux/v5 v5.0.1
	github.com/mattn/go-sqlite3 v1.14.16
	github.com/miekg/dns v1.1.72
	github.com/multiformats/go-multiaddr v0.16.1
	github.com/multiformats/go-multiaddr-dns v0.4.1
	github.com/oapi-codegen/runtime v1.1.1
	github.com/olivere/elastic v6.2.14+incompatible
	github.com/prometheus/client_golang v1.23.2
	github.com/prometheus/client_model v0.6.2
	github.com/sirupsen/logrus v1.9.1
	github.com/spf13/cobra v1.8.1
	github.com/stretchr/testify v1.11.1
	go.opentelemetry.io/otel v1.43.0
	go.opentelemetry.io/otel/exporters/prometheus v0.62.0
	go.opentelemetry.io/otel/metric v1.43.0
	go.opentelemetry.io/otel/sdk/metric v1.43.0
	go.uber.org/zap v1.27.1
	golang.org/x/crypto v0.51.0
	golang.org/x/exp v0.0.0-20260112195511-716be5621a96
	golang.org/x/sync v0.20.0
	golang.org/x/sys v0.45.0
	golang.org/x/text v0.37.0
	gopkg.in/sohlich/elogrus.v3 v3.0.0-20180410122755-1fa29e2f2009
	pgregory.net/rapid v1.3.0
)
require (
	github.com/apapsch/go-jsonmerge/v2 v2.0.0 // indirect
	github.com/benbjohnson/clock v1.3.5 // indirect
	github.com/beorn7/perks v1.0.1 // indirect
	github.com/bits-and-blooms/bitset v1.20.0 // indirect
	github.com/cespare/xxhash/v2 v2.3.0 // indirect
	github.com/cockroachdb/errors v1.11.3 // indirect
	github.com/cockroachdb/logtags v0.0.0-20230118201751-21c54148d20b // indirect
	github.com/cockroachdb/redact v1.1.5 // indirect
	github.com/cockroachdb/tokenbucket v0.0.0-20230807174530-cc333fc44b06 // indirect
	github.com/cpuguy83/go-md2man/v2 v2.0.4 // indirect
	github.com/davecgh/go-spew v1.1.1 // indirect
	github.com/decred/dcrd/dcrec/secp256k1/v4 v4.4.0 // indirect
	github.com/dunglas/httpsfv v1.1.0 // indirect
	github.com/filecoin-project/go-clock v0.1.0 // indirect
	github.com/flynn/noise v1.1.0 // indirect
	github.com/fortytw2/leaktest v1.3.0 // indirect
	github.com/getsentry/sentry-go v0.27.0 // indirect
	github.com/go-logr/logr v1.4.3 // indirect
	github.com/go-logr/stdr v1.2.2 // indirect
	github.com/go-openapi/jsonpointer v0.22.5 // indirect
	github.com/go-openapi/swag/jsonname v0.25.5 // indirect
	github.com/gogo/protobuf v1.3.2 // indirect
	github.com/google/gopacket v1.1.19 // indirect
	github.com/gorilla/websocket v1.5.3 // indirect
	github.com/hashicorp/golang-lru v1.0.2 // indirect
	github.com/hashicorp/golang-lru/v2 v2.0.7 // indirect
	github.com/huin/goupnp v1.3.0 // indirect
	github.com/inconshreveable/mousetrap v1.1.0 // indirect
	github.com/ipfs/boxo v0.36.0 // indirect
	github.com/ipfs/go-cid v0.6.0 // indirect
	github.com/ipfs/go-datastore v0.9.1 // indirect
	github.com/ipld/go-ipld-prime v0.22.0 // indirect
	github.com/jackpal/go-nat-pmp v1.0.2 // indirect
	github.com/jbenet/go-temp-err-catcher v0.1.0 // indirect
	github.com/jmespath/go-jmespath v0.3.0 // indirect
	github.com/josharian/intern v1.0.0 // indirect
	github.com/josharian/native v1.1.0 // indirect
	github.com/klauspost/compress v1.18.0 // indirect
	github.com/koron/go-ssdp v0.0.6 // indirect
	github.com/kr/pretty v0.3.1 // indirect
	github.com/kr/text v0.2.0 // indirect
	github.com/labstack/gommon v0.4.2 // indirect
	github.com/libp2p/go-buffer-pool v0.1.0 // indirect
	github.com/libp2p/go-cidranger v1.1.0 // indirect
	github.com/libp2p/go-flow-metrics v0.3.0 // indirect
	github.com/libp2p/go-libp2p-asn-util v0.4.1 // indirect
	github.com/libp2p/go-libp2p-record v0.3.1 // indirect
	github.com/libp2p/go-libp2p-routing-helpers v0.7.5 // indirect
	github.com/libp2p/go-msgio v0.3.0 // indirect
	github.com/libp2p/go-netroute v0.4.0 // indirect
	github.com/libp2p/go-reuseport v0.4.0 // indirect
	github.com/mailru/easyjson v0.7.7 // indirect
	github.com/marten-seemann/tcp v0.0.0-20210406111302-dfbc87cc63fd // indirect
	github.com/mattn/go-colorable v0.1.13 // indirect
	github.com/mattn/go-isatty v0.0.20 // indirect
	github.com/mdlayher/netlink v1.7.2 // indirect
	github.com/mdlayher/socket v0.4.1 // indirect
	github.com/mikioh/tcpinfo v0.0.0-20190314235526-30a79bb1804b // indirect
	github.com/mikioh/tcpopt v0.0.0-20190314235656-172688c1accc // indirect
	github.com/minio/sha256-simd v1.0.1 // indirect
	github.com/mr-tron/base58 v1.2.0 // indirect
	github.com/multiformats/go-base32 v0.1.0 // indirect
	github.com/multiformats/go-base36 v0.2.0 // indirect
	github.com/multiformats/go-multiaddr-fmt v0.1.0 // indirect
	github.com/multiformats/go-multibase v0.2.0 // indirect
	github.com/multiformats/go-multicodec v0.10.0 // indirect
	github.com/multiformats/go-multihash v0.2.3 // indirect
	github.com/multiformats/go-multistream v0.6.1 // indirect
	github.com/multiformats/go-varint v0.1.0 // indirect
	github.com/munnerz/goautoneg v0.0.0-20191010083416-a7dc8b61c822 // indirect
	github.com/oasdiff/yaml v0.1.1 // indirect
	github.com/oasdiff/yaml3 v0.0.14 // indirect
	github.com/opentracing/opentracing-go v1.2.0 // indirect
	github.com/pbnjay/memory v0.0.0-20210728143218-7b4eea64cf58 // indirect
	github.com/petermattis/goid v0.0.0-20250813065127-a731cc31b4fe // indirect
	github.com/pion/datachannel v1.5.10 // indirect
	github.com/pion/dtls/v2 v2.2.12 // indirect
	github.com/pion/dtls/v3 v3.1.1 // indirect
	github.com/pion/ice/v4 v4.0.10 // indirect
	github.com/pion/interceptor v0.1.40 // indirect
	github.com/pion/logging v0.2.4 // indirect
	github.com/pion/mdns/v2 v2.0.7 // indirect
	github.com/pion/randutil v0.1.0 // indirect
	github.com/pion/rtcp v1.2.15 // indirect
	github.com/pion/rtp v1.8.19 // indirect
	github.com/pion/sctp v1.8.39 // indirect
	github.com/pion/sdp/v3 v3.0.13 // indirect
	github.com/pion/srtp/v3 v3.0.6 // indirect
	github.com/pion/stun v0.6.1 // indirect
	github.com/pion/stun/v3 v3.0.0 // indirect
	github.com/pion/transport/v2 v2.2.10 // indirect
	github.com/pion/transport/v3 v3.0.7 // indirect
	github.com/pion/transport/v4 v4.0.1 // indirect
	github.com/pion/turn/v4 v4.0.2 // indirect
	github.com/pion/webrtc/v4 v4.1.2 // indirect
	github.com/pkg/errors v0.9.1 // indirect
	github.com/pmezard/go-difflib v1.0.0 // indirect
	github.com/polydawn/refmt v0.89.1-0.20231129105047-37766d95467a // indirect
	github.com/prometheus/common v0.67.5 // indirect
	github.com/prometheus/otlptranslator v1.0.0 // indirect
	github.com/prometheus/procfs v0.19.2 // indirect
	github.com/quic-go/qpack v0.6.0 // indirect
	github.com/quic-go/quic-go v0.60.0 // indirect
	github.com/quic-go/webtransport-go v0.11.1 // indirect
	github.com/rogpeppe/go-internal v1.14.1 // indirect
	github.com/russross/blackfriday/v2 v2.1.0 // indirect
	github.com/santhosh-tekuri/jsonschema/v6 v6.0.2 // indirect
	github.com/spaolacci/murmur3 v1.1.0 // indirect
	github.com/spf13/pflag v1.0.6 // indirect
	github.com/stretchr/objx v0.5.2 // indirect
	github.com/valyala/bytebufferpool v1.0.0 // indirect
	github.com/valyala/fasttemplate v1.2.2 // indirect
	github.com/whyrusleeping/go-keyspace v0.0.0-20160322163242-5b898ac5add1 // indirect
	github.com/wlynxg/anet v0.0.5 // indirect
	go.opentelemetry.io/auto/sdk v1.2.1 // indirect
	go.opentelemetry.io/otel/sdk v1.43.0 // indirect
	go.opentelemetry.io/otel/trace v1.43.0 // indirect
	go.uber.org/dig v1.19.0 // indirect
	go.uber.org/fx v1.24.0 // indirect
	go.uber.org/mock v0.5.2 // indirect
	go.uber.org/multierr v1.11.0 // indirect
	go.yaml.in/yaml/v2 v2.4.3 // indirect
	golang.org/x/mod v0.35.0 // indirect
	golang.org/x/net v0.55.0 // indirect
	golang.org/x/telemetry v0.0.0-20260409153401-be6f6cb8b1fa // indirect
	golang.org/x/term v0.43.0 // indirect
	golang.org/x/time v0.12.0 // indirect
	golang.org/x/tools v0.44.0 // indirect
	gonum.org/v1/gonum v0.17.0 // indirect
	google.golang.org/protobuf v1.36.11 // indirect
	gopkg.in/yaml.v3 v3.0.1 // indirect
	lukechampine.com/blake3 v1.4.1 // indirect
)
