#!/bin/bash
# Hand-build of /repo/crypto/libsodium-fork (no autotools in the sandbox). See DESIGN.md App. B.
set -euo pipefail
REPO=${VERIF_REPO:-/repo}
V=$(cd "$(dirname "${BASH_SOURCE[0]}")/.." && pwd)
OUT=${VERIF_OUTDIR:-$V/build}/libsodium
SRC=$REPO/crypto/libsodium-fork/src
H=$(cd "$SRC" && find . -type f \( -name '*.c' -o -name '*.h' -o -name '*.in' \) -print0 | sort -z | xargs -0 sha256sum | sha256sum | cut -d' ' -f1)
if [ -f "$OUT/lib/libsodium.a" ] && [ "$(cat $OUT/srchash 2>/dev/null)" = "$H" ]; then exit 0; fi
B=$(mktemp -d /dev/shm/verif-sodium.XXXXXX)
trap 'rm -rf "$B"' EXIT
cp -R "$SRC" "$B/src"
cd "$B/src/libsodium"
sed -e 's/@VERSION@/1.0.17/' -e 's/@SODIUM_LIBRARY_VERSION_MAJOR@/10/' \
    -e 's/@SODIUM_LIBRARY_VERSION_MINOR@/2/' -e 's/@SODIUM_LIBRARY_MINIMAL_DEF@//' \
    include/sodium/version.h.in > include/sodium/version.h
mkdir -p "$B/obj"
find . -name '*.c' | sort > "$B/files"
CF="-c -O2 -fPIC -std=gnu99 -w -DCONFIGURED=1 -DHAVE_TI_MODE=1 -DNATIVE_LITTLE_ENDIAN=1 -DHAVE_WEAK_SYMBOLS=1 -DHAVE_ATOMIC_OPS=1 -DHAVE_GETPID=1 -DHAVE_POSIX_MEMALIGN=1 -DHAVE_MMAP=1 -DHAVE_MPROTECT=1 -DHAVE_MLOCK=1 -DHAVE_MADVISE=1 -DHAVE_SYS_MMAN_H=1 -DHAVE_NANOSLEEP=1 -DHAVE_EXPLICIT_BZERO=1 -DHAVE_INLINE_ASM=1 -DDEV_MODE=0 -I include/sodium -I include"
export CF B
cat "$B/files" | xargs -P 16 -I{} sh -c 'o=$(echo {} | tr "/." "__"); gcc $CF {} -o $B/obj/$o.o'
rm -rf "$OUT"; mkdir -p "$OUT/lib" "$OUT/include"
ar rcs "$OUT/lib/libsodium.a" "$B"/obj/*.o
cp include/sodium.h "$OUT/include/"
cp -R include/sodium "$OUT/include/sodium"
rm -rf "$OUT/include/sodium/private"
echo "$H" > "$OUT/srchash"
echo "libsodium built: $(ls -la $OUT/lib/libsodium.a)"
