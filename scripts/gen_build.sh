#!/bin/bash
# Regenerates, from /repo's CURRENT working tree: go.mod/go.sum of the harness module and the
# cgo overlay that points crypto's #cgo lines at the hand-built libsodium (DESIGN.md F1/F2).
set -euo pipefail
REPO=${VERIF_REPO:-/repo}
V=$(cd "$(dirname "${BASH_SOURCE[0]}")/.." && pwd)   # works from /verif and from a snapshot worktree (vp run)
# Everything generated for the real /repo lives in /verif/build and /verif/go.mod. For a scratch copy
# of the repository (VERIF_REPO=<dir>, used for sensitivity/mutation runs) it lives in
# /verif/build/alt-<hash>/ and is selected with go's -modfile flag, so concurrent work never collides.
if [ "$REPO" = "/repo" ]; then
  OUT=$V/build; MODFILE=$V/go.mod
else
  OUT=$V/build/alt-$(echo -n "$REPO" | md5sum | cut -c1-10); MODFILE=$OUT/go.mod
fi
mkdir -p $OUT/ov
export VERIF_OUTDIR=$OUT
$V/scripts/build_libsodium.sh
# --- go.mod: harness module with a replace to /repo and /repo's own requirements
{
  echo "module verif"
  echo
  echo "go 1.25.0"
  echo
  echo "toolchain go1.25.3"
  echo
  echo "require github.com/algorand/go-algorand v0.0.0"
  echo
  echo "replace github.com/algorand/go-algorand => $REPO"
  echo
  awk '/^require \(/{p=1} p{print} /^\)/{p=0}' $REPO/go.mod
  grep -E "^replace " $REPO/go.mod || true
} > $MODFILE.new
if ! cmp -s $MODFILE.new $MODFILE; then mv $MODFILE.new $MODFILE; else rm $MODFILE.new; fi
# go.sum: /repo's plus the cached verification modules' sums (kept in scripts/extra.sum)
SUMFILE=${MODFILE%.mod}.sum
cat $REPO/go.sum $V/scripts/extra.sum 2>/dev/null | sort -u > $SUMFILE.new
if ! cmp -s $SUMFILE.new $SUMFILE; then mv $SUMFILE.new $SUMFILE; else rm $SUMFILE.new; fi
# --- overlay
python3 - "$REPO" "$OUT" "$V" <<'PY'
import json,sys,os,re
repo=sys.argv[1]
out=sys.argv[2]
verif=sys.argv[3]
rep={}
for f in ("curve25519.go","batchverifier.go","vrf.go"):
    src=os.path.join(repo,"crypto",f)
    s=open(src).read()
    s=s.replace("${SRCDIR}/libs/linux/amd64",out+"/libsodium")
    dst=out+"/ov/"+f
    if not os.path.exists(dst) or open(dst).read()!=s:
        open(dst,"w").write(s)
    rep[src]=dst
# add-only export shims: every file under /verif/hooks/<path> is overlaid as /repo/<path>
# (build tag verif; nothing is written under /repo). They must not exist in /repo.
hk=verif+"/hooks"
for root,_,files in os.walk(hk):
    for f in files:
        if not f.endswith(".go"): continue
        src=os.path.join(root,f)
        rel=os.path.relpath(src,hk)
        dst=os.path.join(repo,rel)
        if os.path.exists(dst):
            sys.stderr.write("hook %s collides with a file in /repo\n"%rel); sys.exit(1)
        rep[dst]=src
new=json.dumps({"Replace":rep},indent=1,sort_keys=True)
p=out+"/overlay.json"
if not os.path.exists(p) or open(p).read()!=new:
    open(p,"w").write(new)
PY
