#!/bin/bash
# setup_cmd: offline build of everything the checks need (libsodium fork, module files, engine binaries).
set -euo pipefail
cd "$(dirname "${BASH_SOURCE[0]}")/.."
export GOFLAGS=-mod=mod GOPROXY=off
unset GOTOOLCHAIN GOSUMDB || true
./scripts/gen_build.sh
./check --build-all
