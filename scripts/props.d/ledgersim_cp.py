"""ledgersim registrations: catchpoint transfer (C15 label commits to a unique state, C16 catchup reproduces the source / rejects tampering)."""

ENGINES = {}

LEDGER_COMPONENTS = {
    "real": ["ledger.Ledger: blockQueue, trackerRegistry, accountUpdates, acctsOnline, txTail, catchpointTracker, LRU caches, SQLite tracker + block DBs on files",
             "ledger/eval BlockEvaluator + ledger/apply + AVM (data/transactions/logic) for app calls", "data/transactions/verify (real ed25519 signatures)", "crypto (libsodium fork)",
             "producer: catchpointTracker first/second stage, catchpointFileWriter, Ledger.GetCatchpointStream (real gzip'ed tar file)",
             "consumer: a second real ledger.Ledger + ledger.CatchpointCatchupAccessor (ResetStagingBalances, ProcessStagingBalances, BuildMerkleTrie, VerifyCatchpoint, StoreBalancesRound, StoreFirstBlock/StoreBlock, EnsureFirstBlock, CompleteCatchup incl. reloadLedger), merkletrie, trackerdb sqlite staging tables"],
    "stub": ["agreement (blocks are proposed by the workload generator with empty certificates)", "network, tx handler",
             "catchup.CatchpointCatchupService and ledgerFetcher: their stage machine and tar loop are mirrored by the harness (same accessor calls in the same order, same size checks); HTTP transport, peer selection and retry counters are not run",
             "wall clock (testing/synctest fake clock)"],
}

LEDGER_ASSUME = [
    "SQLite transactions are atomic and durable at commit (LedgerSynchronousMode default); crash granularity = storage transaction; the durable image is a copy of all ledger files at a quiescent instant",
    "the evaluator's per-block StateDelta is taken as the definition of a block's effect when checking the tracker stack (the evaluator itself is the subject of C18-C24)",
    "custom consensus version = current protocol with short look-backs (MaxTxnLife 8, balance lookback 8, CatchpointLookback 8, rewards refresh 16, state proofs off) so that short histories cross every window boundary",
    "sampling, not enumeration",
]

CP_ASSUME = [
    "the catchpoint file is the producer's real file; chunk splitting with small limits is produced by the harness in the writer's format (accounts continued over chunks with ExpectingMoreEntries), because the writer's limits (512 accounts / 100000 resources per chunk) are compile-time constants",
    "a crash between the two storage transactions of CompleteCatchup (block DB, then tracker DB) is emulated by calling the accessor's own FinishBlocks(true) and taking the image there",
    "one fake millisecond passes between two accessor operations (ResetCatchpointStagingBalances derives index names from time.Now)",
]


def _p(rule, technique, text, ref, level="exploration", quick=60, thorough=1200, extra=None):
    return {"engine": "ledgersim", "level": level, "budget": {"quick": quick, "thorough": thorough}, "rule": rule,
            "components": LEDGER_COMPONENTS, "assumptions": LEDGER_ASSUME + CP_ASSUME + (extra or []), "technique": technique,
            "level_text": text, "level_note": "Trusted: SQLite atomic commit; the evaluator's StateDelta; basics.AccountData reward arithmetic helper; archive/tar, compress/gzip.", "design_ref": ref}


PROPS = {
    "C16": _p("one evaluation = one seeded history of >=48 blocks (payments, keyregs, assets, applications, boxes) on a producer ledger with catchpoint files on (interval 4-8, lookback 8); for EVERY catchpoint the producer reports, its real file is transferred to a fresh consumer ledger (optionally one that already followed the chain for 1-24 blocks) through the real catchup accessor in the node's stage order. "
              "Per transfer, each with probability 1/2: re-chunking into the writer's split-account format with 1-5 accounts / 1-3 resources per chunk; one chunk-stream fault (bit flip anywhere in the tar stream, truncation, dropped / duplicated / swapped chunk, chunk of another catchpoint round, one semantically rewritten entry); consumer crash (copy of its files) before a drawn accessor operation or between CompleteCatchup's two storage transactions; clean restart before a drawn operation; both resume from the persisted catchup state. "
              "Untampered (incl. re-chunked, crashed, restarted) transfers must complete and the restored ledger must equal the reference fold: Latest()==R, blocks R-17..R, every account / asset / application / box / creator lookup and totals at every round R-8..R, LookupAgreement and OnlineCirculation for every round of the online window, account/resource/kv table sets without extras; it must then accept the producer's next blocks, still match, and (as a follower) produce the producer's later catchpoint labels. "
              "Tampered transfers must be rejected before CompleteCatchup or - if the fault was neutral - restore the same state; after a rejection either abort (ledger unchanged, still accepts its next block) or a clean retry (must succeed) is checked. non-trivial = >=1 complete restore compared and >=1 tampered transfer judged; distinct = distinct event-log digest",
              "deterministic simulation: producer/consumer ledgers in one bubble; chunk-stream faults, consumer crash/restart at every accessor operation; reference fold vs restored ledger",
              "Every untampered transfer explored restored exactly the producer's state at the catchpoint round (accounts, resources, boxes, creators, totals, online history, blocks) and kept following the chain; no tampered transfer explored was adopted with a different state.", "DESIGN.md §4 C16", quick=90, thorough=1200),
    "C15": _p("one evaluation = one seeded history as for C16 (workload biased to applications and boxes named a, ab, abc, a\\x00, ...); for every producer catchpoint: a control (the untampered file must verify on the consumer) and 6-11 tampered copies, each with ONE entry of one decoded chunk rewritten into a different well-formed entry (30 classes: balance +-1, account data swapped, address / field changed, holding moved / re-indexed / asset<->app flipped, holding amount, asset params, app global / local state value, program byte, box value byte, box key byte, "
              "byte moved across the box name/value boundary, account / box / online row duplicated or removed, online-account / online-round-params row changed, header totals / version changed, extra or shadowing partial account records), with or without fix-up of the dependent counters; the consumer runs the real ResetStagingBalances -> ProcessStagingBalances -> BuildMerkleTrie -> VerifyCatchpoint with the ORIGINAL label; its staging tables are read back through a second SQLite connection. "
              "Judged: staged state differs from the control's and VerifyCatchpoint passes = two states under one label (violation, key = tamper class); non-trivial = >=3 tamper classes judged in the run; distinct = distinct event-log digest",
              "deterministic simulation with a semantic single-entry tamper fault on the producer->consumer transfer; differential staging tables vs verification verdict",
              "Every explored single-entry rewrite that changed the staged state was rejected by VerifyCatchpoint (or earlier), except the recorded known classes.", "DESIGN.md §4 C15, §1 F6", quick=90, thorough=1200),
}
