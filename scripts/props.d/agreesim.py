"""agreesim registrations."""

ENGINES = {
    "agreesim": {"pkg": "./sim/agreesim",
                 "kind": "N real agreement.Service instances in one testing/synctest bubble; simulator-owned ledger stub, network, clocks, worker pool; seeded scheduler decides every delivery, timer, fault and crash"},
}

AGREE_COMPONENTS = {
    "real": ["agreement.Service (demux, player, router, vote/proposal trackers, pseudonode, cryptoVerifier, AsyncVoteVerifier, persistence to a real SQLite crash DB)",
             "crypto (libsodium fork: ed25519, VRF, one-time signatures)", "data/committee credentials + sortition", "protocol codecs"],
    "stub": ["ledger as seen by agreement (block map + static stake table)", "block factory/validator (a deterministic function of (node, round, number of assemblies of that round so far); validation always accepts)",
             "gossip network (simulated full mesh)", "timers.Clock (simulated per-node clock)", "execpool (single FIFO worker)"],
}

AGREE_ASSUME = [
    "SQLite transactions on the agreement crash DB are atomic and durable at commit (crash granularity = storage transaction)",
    "stake table is static during a run; block validation always accepts (the real ledger is exercised by other engines)",
    "adversary holds at most 20% of total stake, so its committee weight stays far below the 2T-W overlap needed for two quorums",
    "sampling, not enumeration: a clean batch is evidence, not proof",
]

PROPS = {
    "C01": {
        "engine": "agreesim", "level": "exploration", "budget": {"quick": 60, "thorough": 1200},
        "rule": "one evaluation = one seeded simulated run (3-6 honest real agreement services + optional split-brain/crafting adversary, 2-5 rounds) under a drawn fault mix; "
                "non-trivial = at least one round committed AND at least one fault/timer/reordering fired; distinct = distinct canonical event-log digest",
        "components": AGREE_COMPONENTS, "assumptions": AGREE_ASSUME,
        "technique": "deterministic simulation: seeded schedules x message loss/dup/reorder/partition x crash-restart x equivocating minority; invariant <=1 digest per round",
        "level_text": "Seeded search over schedules, network faults, crash points and Byzantine-minority behaviour against the real agreement service; invariant checked after every scheduler step. Sampling evidence, not proof.",
        "level_note": "Trusted: crypto primitives, SQLite atomic commit, the simulator's seams (ledger stub, network, clock). Stake static.",
        "design_ref": "DESIGN.md §4 C01",
    },
    "C02": {
        "engine": "agreesim", "level": "exploration", "budget": {"quick": 60, "thorough": 1200},
        "rule": "one evaluation = one seeded run with crash/restart faults biased to the persist/send windows (seam-call crash triggers, slow ledger flush, quiescent crashes); "
                "non-trivial = committed >=1 round AND >=1 crash; distinct = distinct event-log digest",
        "components": AGREE_COMPONENTS, "assumptions": AGREE_ASSUME + ["every assembly yields a different block, so re-proposals differ; propose-step votes are excluded from the one-value rule because assemble/repropose are non-persistent by design"],
        "technique": "deterministic simulation with crash injection at seam calls; history oracle over all incarnations + persisted-before-sent decided from an in-DB persist history sampled at the network seam + shadow-restore of the crash DB image",
        "level_text": "Seeded search over crash placements (before persist, persisted-not-sent, partly sent) and schedules; history oracle: one value per (key, round, period, step>=soft) over all incarnations; every own vote of step>=soft may leave only after a state holding exactly that attestation was persisted (append-only persist history inside the crash DB, sampled at the network seam); a node restored from the crash-DB image at a send instant never votes against anything its keys sent.",
        "level_note": "Trusted: SQLite atomic commit; simulator seams. Crash granularity is the storage transaction.",
        "design_ref": "DESIGN.md §4 C02",
    },
    "C03": {
        "engine": "agreesim", "level": "exploration", "budget": {"quick": 60, "thorough": 1200},
        "rule": "one evaluation = one seeded run as for C01; every Ensure* call is checked by an independent certificate checker (mirror decoding, one-time-signature + VRF primitives, sortition library); "
                "non-trivial = >=1 certificate checked under >=1 fault; distinct = distinct event-log digest",
        "components": AGREE_COMPONENTS, "assumptions": AGREE_ASSUME,
        "technique": "deterministic simulation; independent certificate checker at every commit; votes in certificates must be byte-identical to votes a key holder emitted",
        "level_text": "Every block handed to the ledger in every explored schedule is accompanied by a certificate that an independently written checker accepts (step, round, digest, distinct voters, signatures, credentials, weight >= threshold).",
        "level_note": "Trusted: crypto primitives and the sortition library used by the reference checker.",
        "design_ref": "DESIGN.md §4 C03",
    },
    "C05": {
        "engine": "agreesim", "level": "exploration", "budget": {"quick": 60, "thorough": 1200},
        "rule": "one evaluation = one seeded run: asynchronous prefix of 0-1500 scheduler steps with loss, partitions, stalls, crashes and arbitrary timer firing (nodes end up in different periods/steps/rounds), then GST: faults stop, "
                "discrete-event phase with every message delivered within a drawn delta (20-600 ms), +-5% clock-rate skew, timers at their deadlines; non-trivial = the pending round was committed by every node in the synchronous phase; distinct = distinct event-log digest",
        "components": AGREE_COMPONENTS, "assumptions": AGREE_ASSUME + ["liveness verdicts are issued only after faults stop; bound K=6 periods is fixed from the protocol argument with margin and validated on the unchanged tree"],
        "technique": "deterministic simulation: adversarial asynchronous prefix, then bounded-delay discrete-event phase; bounded-liveness oracle (periods and simulated time after GST)",
        "level_text": "Bounded liveness: after faults stop, every honest node commits the pending round within 6 periods (and 40 simulated minutes) in every explored run; starting states are produced by seeded asynchronous fault prefixes.",
        "level_note": "Trusted: simulator clock/transport; honest supermajority online after GST; no adversary in liveness runs.",
        "design_ref": "DESIGN.md §4 C05",
    },
    "C04": {
        "engine": "agreesim", "level": "exploration", "budget": {"quick": 60, "thorough": 1200},
        "rule": "one evaluation = one seeded run with a Byzantine adversary (split-brain instances + simulator-crafted traffic): genuine bundles/votes seen on the wire are re-assembled and tampered with one KNOWN mutation each "
                "(duplicated voter, dropped voters, round/period/step/value changed, bottom value, flipped signature or VRF bit, identical equivocation halves, spliced vote of another step, plus valid variants with adversary votes / equivocation pairs) and delivered to honest nodes in reachable round/period contexts; "
                "non-trivial = at least one reference-invalid crafted bundle was delivered and at least one round committed; distinct = distinct event-log digest",
        "components": AGREE_COMPONENTS, "assumptions": AGREE_ASSUME + ["acceptance is observed behaviourally: a node emitting (relaying/broadcasting) a vote or bundle the reference rejects, signalling a quorum the reference-valid votes it was given do not carry, or committing with a certificate the reference rejects"],
        "technique": "deterministic simulation with a Byzantine/tampering transport; independent validity checker vs observed acceptance in the real verification pipeline",
        "level_text": "Tampered bundles and votes are injected into running simulations; a reference-invalid object must never be relayed, never let a node signal a quorum, never certify a commit. Sampling over mutation kinds x protocol contexts.",
        "level_note": "Trusted: crypto primitives + sortition library inside the reference checker. The predicate itself is a pure function; what simulation adds is the reachable context (freshness filters, trackers, pipelined verification).",
        "design_ref": "DESIGN.md §4 C04",
    },
    "C06": {
        "engine": "agreesim", "level": "exploration", "budget": {"quick": 60, "thorough": 1200},
        "rule": "one evaluation = one seeded run with duplication, reordering and equivocating adversary keys; a reference tally per (node, round, period, step) is fed with every reference-valid vote handed to the node; "
                "each observable quorum signal (own bundle broadcast, cert vote after a soft quorum, commit) is checked against it; non-trivial = >=1 quorum signal checked with >=1 duplicate or equivocation delivered; distinct = distinct event-log digest",
        "components": AGREE_COMPONENTS, "assumptions": AGREE_ASSUME + ["only-if direction: a node signals a quorum for a value only after reference weight (each sender once, an equivocator for every value) reached the threshold; the 'exactly when' direction is not asserted because the node may legitimately treat delivered votes as stale",
                                                                         "every bundle an honest node emits must pass the independent quorum checker"],
        "technique": "deterministic simulation; reference vote tally per node and step vs observed quorum signals; independent bundle checker",
        "level_text": "Every observable quorum signal in every explored schedule is backed by reference weight >= threshold for that value, duplicates never add weight, equivocators count once per value, and every emitted bundle is a valid quorum proof.",
        "level_note": "Trusted: crypto primitives + sortition in the reference tally; simulator transport.",
        "design_ref": "DESIGN.md §4 C06",
    },
    "C07": {
        "engine": "agreesim", "level": "exploration", "budget": {"quick": 60, "thorough": 1200},
        "rule": "one evaluation = one seeded run (crash-heavy fault mix); at drawn persistence instants a twin service is restored from a copy of the node's crash DB + ledger and fed exactly the stimuli the uncrashed node receives "
                "(messages, timers by type, ledger flush/catch-up) for a drawn horizon of 20-400 stimuli; after each reaction the externally visible effects (emitted messages byte-for-byte, Ensure* round/digest/certificate, disconnects) must be equal; "
                "non-trivial = >=1 compared twin reaction; distinct = distinct event-log digest",
        "components": AGREE_COMPONENTS, "assumptions": AGREE_ASSUME + ["documented non-persisted state is normalised, not ignored wholesale: EnsureValidatedBlock vs EnsureBlock (validated-block cache), timer DURATIONS (credential-arrival history and timeout entropy) - the twin's timers are fired by type"],
        "technique": "deterministic simulation: twin-run equality (restored-from-crash-DB service vs uncrashed service under identical stimuli)",
        "level_text": "Behavioural restore equality: in every explored schedule a service restored from the crash DB reacts to the next 20-400 stimuli exactly as the uncrashed service does.",
        "level_note": "Trusted: simulator seams; SQLite atomic commit. Covers states reachable in 3-6 node runs of 2-5 rounds.",
        "design_ref": "DESIGN.md §4 C07",
    },
    "C36": {
        "engine": "agreesim", "level": "exploration", "budget": {"quick": 30, "thorough": 600},
        "rule": "one evaluation = one seeded operation history over a real PersistedParticipation on a real SQLite file (key dilution 2-9, validity span 8-60 rounds, 8-120 ops): advance (DeleteOldKeys, incl. stale lower rounds and jumps over batch boundaries), sign probes of earlier/current/later rounds, "
                "crash + reload from a copy of the DB file, injected storage error on the key-update transaction; non-trivial = >=1 acknowledged advance and >=1 probe of an already passed round; distinct = distinct event-log digest",
        "components": {"real": ["data/account PersistedParticipation (DeleteOldKeys, RestoreParticipation, FillDBWithParticipationKeys)", "crypto OneTimeSignatureSecrets (DeleteBeforeFineGrained, Sign, Verify)", "SQLite participation DB on a file"], "stub": ["the node around the keys (rounds are driven by the op generator)"]},
        "assumptions": ["only deletions whose DB update was acknowledged are required to survive a crash", "crash granularity = SQLite transaction; key erasure from freed memory / disk pages (secure_delete) is not examined"],
        "technique": "deterministic simulation of key-advance histories with crash/reload and storage-error injection against a reference model of the advanced round",
        "level_text": "In every explored history: after an advance past round r no valid signature for any earlier round can be produced (in memory, and after reload once the deletion was acknowledged), and every later round in the validity range stays signable.",
        "level_note": "Trusted: ed25519 verification primitive used by the probe.",
        "design_ref": "DESIGN.md §4 C36",
    },
}
