"""netsim registrations (C42 vote compression, C43 size limits + duplicate suppression)."""

ENGINES = {
    "netsim": {"pkg": "./sim/netsim",
               "kind": "real network.wsPeer instances (readLoop, writeLoop, wsPeerMsgCodec, vpack codecs, LimitedReaderSlurper, messageFilter) over "
                       "simulated websocket connections in one testing/synctest bubble; a seeded scheduler decides every message, chunking, "
                       "delivery interleaving, frame corruption, read error and connection reset"},
}

NET_STUBS = ["websocket connection (simulated NextReader/WriteMessage; no TCP, TLS, HTTP upgrade or libp2p)",
             "GossipNode behind the peer (only peerRemoteClose is ever called; stubbed in the verif shim)",
             "message handlers (the harness drains the read buffer and returns the per-peer token like messageHandlerThread)"]

PROPS = {
    "C42": {
        "engine": "netsim", "level": "exploration", "budget": {"quick": 40, "thorough": 900},
        "rule": "one evaluation = one seeded run: two real wsPeers A,B joined by simulated connections exchange 60-500 (thorough: 200-3000) scheduler steps of synthetic canonical votes "
                "(1-48 repeated senders, per-round and per-batch one-time keys, 1-10 proposals per round, round/period/step moves incl. integer-width edges) and other gossip in both directions through the real "
                "broadcast preparation, send queue, writeLoop codec, readLoop codec; negotiated table size 16-2048 or stateless-only per run; faults (each kind on with probability 1/2 per run): "
                "frame corruption (byte flips, header-bit flips, truncation, extension, random bytes, out-of-range references), frame replay, connection reset, uncompressible AV payloads; "
                "non-trivial = >=10 stateful (VP) frames, >=3 of them using table/window references, >=5 sender/receiver state comparisons; distinct = distinct event-log digest",
        "components": {
            "real": ["network.wsPeer readLoop + writeLoop + send queues", "network.wsPeerMsgCodec incl. abort / fallback protocol and feature negotiation (setHeaders, decodePeerFeatures, getBestVpackTableSize)",
                     "network.msgBroadcaster.preparePeerData (stateless vpack for votes, zstd for proposals)", "network/vpack StatelessEncoder/Decoder, StatefulEncoder/Decoder, lruTable, propWindow",
                     "LimitedReaderSlurper on the receive path"],
            "stub": NET_STUBS + ["broadcast fan-out: innerBroadcast's per-peer body (choose plain or compressed form, writeNonBlock) is replicated for one peer in the verif shim",
                                 "vote stream is synthetic (hand-written canonical msgpack emitter validated against the reflection codec), not recorded from agreement"],
        },
        "assumptions": [
            "votes handed to the sender are canonical msgpack encodings as agreement produces them (protocol.Encode); non-canonical encodings are outside the workload",
            "the connection delivers frames in order and without loss (websocket over TCP); corruption and replay are faults injected by the simulator and judged against an independent reference decoder of the wire format",
            "a forged abort message (VP 0xFF) is excluded from the corruption faults: it only silences the forging sender's own votes",
            "after an injected fault votes may be lost (dropped while the ends fall back) but never altered; fault-free runs tolerate no loss",
            "sampling, not enumeration: a clean batch is evidence, not proof",
        ],
        "technique": "deterministic simulation of a peer pair: seeded vote streams x delivery interleavings x frame corruption / replay / reset / encoder-failure faults; oracles: byte identity and order of every delivered message, "
                     "sender-encoder vs receiver-decoder table-state equality after every intact frame, reference-decoder agreement on every corrupted or post-corruption frame, no panic, fallback reaches both ends",
        "level_text": "Seeded search over vote sequences, delivery interleavings and transport faults against the real peer code. After every intact frame the receiver's LRU tables, MRU bits, proposal window and last round "
                      "equal the sender's; every delivered vote is byte-identical to the one sent; malformed frames are rejected with an abort that reaches both ends. Sampling evidence, not proof.",
        "level_note": "Trusted: the hand-written reference decoder of the VP/AV wire format (validated continuously: on honest streams it must reproduce the sent vote), the simulated connection, synctest scheduling. "
                      "Panics are screened by running twin vpack codecs on the same input in the scheduler goroutine before the real loops see it.",
        "design_ref": "DESIGN.md §4 C42",
    },
    "C43": {
        "engine": "netsim", "level": "exploration", "budget": {"quick": 40, "thorough": 900},
        "rule": "one evaluation = one seeded run: 1-4 real wsPeers sharing one real incoming messageFilter (1-5 buckets x 1-8 entries per run; off in 1 run of 8) read 40-160 (thorough: 100-800) messages from simulated connections; "
                "every protocol tag plus unknown tags; sizes 0, typical, limit-1, limit, limit+1, limit+small, 2x limit, far larger, and the slurper's buffer boundaries; proposals also as zstd frames whose decompressed size sits around the limit; "
                "readers chunk in 1-byte reads, fixed and random chunk sizes, reads ending exactly at / straddling the limit, zero-length reads, EOF with or after the last bytes, park mid-message while other peers finish theirs; "
                "faults: io.ErrUnexpectedEOF mid-message, text frame, short tag, NextReader error; duplicates and near-duplicates (one byte flipped, same bytes under the other dedup-safe tag) of earlier AV/TX messages from scheduler-chosen peers; "
                "non-trivial = >=1 oversize message rejected, >=1 message of exactly the limit delivered, >=1 duplicate suppressed inside the guaranteed retention (when the filter retains anything); distinct = distinct event-log digest",
        "components": {
            "real": ["network.wsPeer readLoop (tag read, per-tag limit, tag dispatch, dedup call site, read-buffer fairness tokens)", "network.LimitedReaderSlurper", "network.messageFilter (CheckIncomingMessage/CheckDigest, bucket rotation, promotion)",
                     "protocol.Tag.MaxMessageSize", "network.wsPeerMsgCodec proposal path (zstd decompression with its size cap)"],
            "stub": NET_STUBS + ["vote compression is switched off on these peers (C42 covers it)"],
        },
        "assumptions": [
            "guaranteed retention of the bucketed filter, derived from its configuration: a message that passed the filter is still remembered while fewer than (buckets-1) x bucketSize other filter operations happened since it was last seen "
            "(each operation adds at most one entry to the top bucket; a bucket is dropped only after buckets rotations); duplicates beyond that bound are counted, not judged",
            "buffering bound = tag limit + one allocation step (64 KiB) as documented in limited_reader_slurper.go, observed at the simulated reader (every byte the slurper holds it took from the reader; every buffer it allocates shows up as offered read capacity)",
            "an unknown tag has MaxMessageSize 0, which the slurper treats as 'no per-tag limit': such messages are buffered up to the connection cap (6 MiB) and then dropped, never delivered; the check asserts the connection cap for them and counts the cases",
            "sampling, not enumeration: a clean batch is evidence, not proof",
        ],
        "technique": "deterministic simulation of several peers' read loops: seeded messages around every tag limit x arbitrary chunkings x read errors x interleaved duplicates; oracles: nothing above its tag limit reaches the handler, "
                     "bytes taken from the connection per message <= limit + allocation step, delivered bytes are exactly the wire message, duplicates inside the filter's guaranteed retention are not delivered, non-duplicates within the limit are",
        "level_text": "Seeded search over message sizes, chunkings, read faults and duplicate interleavings against the real read loop, slurper and filter. In every explored run nothing larger than its tag limit reached the handler, "
                      "the peer never buffered more than limit + 64 KiB, and no duplicate inside the filter's guaranteed retention was delivered. Sampling evidence, not proof.",
        "level_note": "Trusted: the simulated connection/reader, the retention bound derived by hand from messageFilter.go, synctest scheduling. The websocket library's own SetReadLimit is not in the loop.",
        "design_ref": "DESIGN.md §4 C43",
    },
}
