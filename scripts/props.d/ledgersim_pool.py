"""ledgersim registrations: the real transaction pool as block proposer (C20, C44).
Observer: sim/ledgersim/obs_pool.go, obs_pool_gen.go, obs_pool_c20.go."""

ENGINES = {}

LEDGER_COMPONENTS = {
    "real": ["ledger.Ledger: blockQueue, trackerRegistry, accountUpdates, acctsOnline, txTail, catchpointTracker, LRU caches, SQLite tracker + block DBs on files",
             "ledger/eval BlockEvaluator + ledger/apply + AVM (data/transactions/logic) for app calls", "data/transactions/verify (real ed25519 signatures)", "crypto (libsodium fork)"],
    "stub": ["agreement (blocks are proposed by the workload generator with empty certificates)", "network, tx handler, catchup", "wall clock (testing/synctest fake clock)"],
}

LEDGER_ASSUME = [
    "SQLite transactions are atomic and durable at commit (LedgerSynchronousMode default); crash granularity = storage transaction; the durable image is a copy of all ledger files at a quiescent instant",
    "the evaluator's per-block StateDelta is taken as the definition of a block's effect when checking the tracker stack (the evaluator itself is the subject of C18-C24)",
    "custom consensus version = current protocol with short look-backs (MaxTxnLife 8, balance lookback 8, rewards refresh 16) so that short histories cross every window boundary",
    "sampling, not enumeration",
]

POOL_COMPONENTS = {
    "real": LEDGER_COMPONENTS["real"] + ["data/pools.TransactionPool (Remember/ingest, checkPendingQueueSize, OnNewBlock/recomputeBlockEvaluator, AssembleBlock with its deadline logic, statusCache) over the primary ledger",
                                        "ledger/eval/prefetcher and data/transactions/verify.PaysetGroups on util/execpool (runtime.NumCPU() real worker goroutines inside the bubble)",
                                        "ledgercore.UnfinishedBlock.FinishBlock with the eligibility rule of agreement.payoutEligible"],
    "stub": ["agreement (the simulator plays pseudonode/proposalForBlock: AssembleBlock -> FinishBlock(seed, proposer, eligible); empty certificates; seed = hash of the round)",
             "network and transaction handler (the simulator verifies each group with verify.TxnGroup against the latest header and the ledger's verified-transaction cache, then calls Remember)",
             "ledger block notifier (the simulator calls pool.OnNewBlock(block, delta) itself right after the block was added, with the arguments ledger/notifier.go passes)",
             "wall clock (testing/synctest fake clock; condvar.TimedWait's real nanosleep only produces spurious wake-ups)"],
}

POOL_ASSUME = [
    "the pool is fed like a node feeds it: only groups that passed verify.TxnGroup are handed to Remember (Remember's documented precondition); OnNewBlock is delivered once per added block, in order",
    "assembly deadlines: the fake clock does not advance inside recomputeBlockEvaluator; a deadline expiring mid-assembly is produced through the pool's own estimate (deadline = now + 2ms + k x 2155ns makes isAssemblyTimedOut true once more than k transactions are in the payset); a deadline expiring while the whole re-evaluation is still running is not reachable",
    "a restarted node starts with a new pool; the formerly pending groups are submitted again",
]


def _p(rule, technique, text, ref, level="exploration", quick=90, thorough=1200, extra=None, note=None):
    return {"engine": "ledgersim", "level": level, "budget": {"quick": quick, "thorough": thorough}, "rule": rule,
            "components": POOL_COMPONENTS, "assumptions": LEDGER_ASSUME + POOL_ASSUME + (extra or []), "technique": technique,
            "level_text": text,
            "level_note": note or "Trusted: SQLite atomic commit; ed25519/sha512 primitives; msgpack canonical encoding used for digests.",
            "design_ref": ref}


WORKLOAD = ("per round the generator's groups (payments, keyregs, asset and application life cycles, boxes, inner payments, rekeys) plus drawn extras - the same group twice, a group already pending, a group committed a few blocks ago, two payments that each fit the balance but not both, "
            "a payment that leaves the sender just above its minimum balance followed by small payments of that sender, two transactions under one lease, a chain whose second group is only valid after the first, validity windows of 1-2 rounds, not-yet-valid / expired / badly signed groups, bursts that fill the pool - "
            "are verified (verify.TxnGroup with the ledger's verified cache) and Remembered by a real TransactionPool (TxPoolSize 8-30 and MaxTxnBytesPerBlock default/6000/2600 drawn per run, so that the size limit binds and the pending set can span several blocks); "
            "15/30/50% of the rounds (drawn per run) are proposed by another node: the driver's evaluator over its own groups, groups shared with the pending set, and groups that drain the sender or take the lease of a pending transaction; "
            "otherwise the block is pool.AssembleBlock(next, deadline) - called when the pool is caught up, or started before OnNewBlock with a deadline that makes recomputeBlockEvaluator stop after a drawn number of transactions, or with a deadline already expired before OnNewBlock (empty block) - finished as agreement.proposalForBlock does "
            "(proposer drawn among VotingAccountsForRound, eligibility as agreement.payoutEligible); after every added block pool.OnNewBlock(block, delta); after every crash / clean reload of the ledger a new pool to which the formerly pending groups are submitted again")

PROPS = {
    "C20": _p("one evaluation = one seeded history of 20-140 blocks on a real on-disk ledger (crashes, reloads, fake-clock flushes as drawn); " + WORKLOAD + "; "
              "every block (pool-assembled or foreign) is evaluated before it is added through six paths: Ledger.Validate (prefetcher + parallel signature verification on NumCPU real workers), eval.Eval(validate=false) (AddBlock / tracker-replay path), a validating evaluator fed group by group without prefetcher or execution pool, "
              "Ledger.Validate on a replica ledger with the same blocks but another MaxAcctLookback, no LRU caches, fed through AddBlock, with its own crashes and clean reloads, Ledger.Validate a second time (warm caches), and regeneration of the block in generate mode from the same signed transactions; "
              "a pool-assembled block rejected by the primary or the replica is a violation; all paths must give the same canonical StateDelta digest (accounts, asset/app resources, kv with old values, txids with intra index, leases, creatables, header, totals; one line per element, sorted, msgpack) and byte-identical blocks "
              "(the regenerated block modulo the order of the proposer-chosen expired/absent lists); "
              "non-trivial = >=1 non-empty pool-assembled block validated on both ledgers and added, and >=1 six-way comparison of a non-empty block; distinct = distinct event-log digest",
              "deterministic simulation: real transaction pool as proposer under a seeded submission / foreign-block / deadline / restart schedule; differential evaluation of every block over code paths, worker scheduling, cache states and ledgers",
              "Every explored block assembled from the pool validated on the assembling ledger and on a replica with different flush/cache/restart history; every explored block gave identical StateDelta digests and block bytes on all six evaluation paths.",
              "DESIGN.md §4 C20",
              extra=["the completion order of prefetch and signature-verification tasks is left to the Go scheduler over real worker goroutines (GOMAXPROCS 1/2/4/16 across workers and the determinism self-test); it is not enumerated; only the RESULT of the comparison is logged",
                     "the order of the resource slices inside a StateDelta is not part of the compared state change (the evaluator folds application storage deltas in map-iteration order; observed to vary between evaluations on the unchanged tree, counted as c20.order_differs)",
                     "SQLite only (Pebble-backed replicas are the subject of C47)"]),
    "C44": _p("one evaluation = one seeded history of 20-140 blocks as for C20 with 45% of the generator's draws turned into payments; " + WORKLOAD + "; at most once per run a Remember is started while the ledger already has a block the pool has not been told about; "
              "at every quiescent point - before and after each Remember batch, after each OnNewBlock, after each reopen (empty pool and after re-submission) -: no pending txid is in the chain (committed-txid map kept from the added blocks, cut back when a crash loses blocks), no txid twice, no empty group, transaction count <= TxPoolSize and == PendingCount(), every pending LastValid >= next round, "
              "and the pending groups replayed IN ORDER on a fresh BlockEvaluator (Generate+Validate, header derived from the latest block) are ALL accepted (a full block is continued with ResetTxnBytes as the pool does); every group Remember admits is applied to that same evaluator right away and must be accepted (admission oracle); "
              "non-trivial = >=1 group admitted, >=1 rejected, >=1 pending group replayed, and (>=1 pending group evicted by OnNewBlock although not committed, or >=1 pending group committed by a foreign block); distinct = distinct event-log digest",
              "deterministic simulation: real transaction pool under seeded valid/invalid/duplicate/conflicting submissions interleaved with local and foreign blocks, deadlines, size limits and ledger restarts; reference = fresh evaluator replay + committed-txid map",
              "At every explored quiescent point the pool held only uncommitted, unexpired, distinct transactions within its size limit that a fresh evaluator accepts in order on the latest state, and every admitted group was acceptable on top of the pending groups at admission.",
              "DESIGN.md §4 C44",
              extra=["one direction only: what the pool rejects or evicts is counted by reason, never judged",
                     "Remember racing OnNewBlock: the waiting Remember is released by the OnNewBlock broadcast (ingest's one-second timeout runs on the real clock and is not explored)"]),
}
