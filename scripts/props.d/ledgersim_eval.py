"""ledgersim registrations for the evaluator properties C19, C21, C22, C23 (observers obs_*.go).

Loaded independently of ledgersim.py (runpy), hence the copied helper and tables."""

ENGINES = {}

LEDGER_COMPONENTS = {
    "real": ["ledger.Ledger: blockQueue, trackerRegistry, accountUpdates, acctsOnline, txTail, catchpointTracker, LRU caches, SQLite tracker + block DBs on files",
             "ledger/eval BlockEvaluator + ledger/apply + AVM (data/transactions/logic) for app calls", "data/transactions/verify (real ed25519 signatures)", "crypto (libsodium fork)"],
    "stub": ["agreement (blocks are proposed by the workload generator with empty certificates)", "network, tx handler, catchup", "wall clock (testing/synctest fake clock)"],
}

LEDGER_ASSUME = [
    "SQLite transactions are atomic and durable at commit (LedgerSynchronousMode default); crash granularity = storage transaction; the durable image is a copy of all ledger files at a quiescent instant",
    "the evaluator's per-block StateDelta is taken as the definition of a block's effect when checking the tracker stack (the evaluator itself is the subject of C18-C24)",
    "custom consensus version = current protocol with short look-backs (MaxTxnLife 8, balance lookback 8, rewards refresh 16) so that short histories cross every window boundary",
    "sampling, not enumeration",
]

def _p(rule, technique, text, ref, level="exploration", quick=60, thorough=1200, extra=None):
    return {"engine": "ledgersim", "level": level, "budget": {"quick": quick, "thorough": thorough}, "rule": rule,
            "components": LEDGER_COMPONENTS, "assumptions": LEDGER_ASSUME + (extra or []), "technique": technique,
            "level_text": text, "level_note": "Trusted: SQLite atomic commit; the reference fold of StateDeltas as the description of the committed state (its agreement with every ledger lookup is C08); basics reward arithmetic helper.", "design_ref": ref}

EVAL_VIEW = ["the evaluator's uncommitted state is read through an add-only, read-only view compiled in with the verif build tag (hooks/ledger/eval/verif_evalview.go); it never calls roundCowState.deltas() and writes nothing"]

PROPS = {
    "C19": _p("one evaluation = one seeded history of 20-140 blocks on a real on-disk ledger; into every block under construction 1-4 poisoned groups of 2-6 members are inserted at drawn positions among the ordinary groups: a drawn member carries a drawn poison "
              "(overspend, min-balance violation, erroring app call, inner-transaction overspend, unavailable box, schema overflow, asset transfer to a non-opted-in receiver, flipped group id, wrong signing key, wrong authorizer, lease conflict with a committed transaction, duplicated member, fee shortfall) "
              "and the members in front of it succeed on their own and change state (payment, app global put / box create with a unique marker, asset transfer, inner payment, app-account funding); each poisoned group must be rejected with the evaluator's complete uncommitted state "
              "(block delta, pending app storage deltas, payset, counters, fees) byte-identical before and after - also when handed to BlockEvaluator.TransactionGroup directly after the node pipeline rejected it earlier - and the committed block/StateDelta/reference state must contain no member and no marker effect; "
              "non-trivial = >5 transactions committed, >=1 poisoned group rejected by the evaluator after at least one earlier member had executed; distinct = distinct event-log digest",
              "deterministic simulation with poisoned-group fault injection; before/after fingerprint of the evaluator state + absence oracle on the committed block",
              "Every poisoned group explored was rejected and left the block under construction and the resulting ledger state exactly as if it had never been tried.", "DESIGN.md §4 C19", extra=EVAL_VIEW),
    "C21": _p("one evaluation = one seeded history of 20-140 blocks (payments, closes, asset and application life cycles, boxes, inner payments) plus 0-3 boundary probes per block that drive a drawn account (fresh, poor, rich or an application account) to EXACTLY its required balance + d, d in {-1, 0, +1, -random}, "
              "by spending, by being funded, or inside one group right before an asset opt-in/creation, an app opt-in/creation with drawn schemas and extra pages, a box creation/resize, an inner payment, or after an asset close-out; "
              "after every accepted group every account modified so far in the block, and after every block every account the StateDelta touches (except fee sink, rewards pool, state-proof sender), must be absent and own nothing or hold micro-algos incl. pending rewards >= a minimum recomputed from the consensus parameters "
              "(per block from the RESOURCES of the reference fold: holdings, created apps with global schema and extra pages, local states with their schema, boxes enumerated from the kv fold; per group from the account's counters); "
              "non-trivial = >5 transactions committed, >=1 account ended a block at exactly its minimum and >=1 below-minimum probe was rejected; distinct = distinct event-log digest",
              "deterministic simulation with boundary-value workload; independent min-balance formula as post-condition per group and per block",
              "No explored group or block left a live account below the minimum balance implied by what it owns.", "DESIGN.md §4 C21", extra=EVAL_VIEW),
    "C22": _p("one evaluation = one seeded history of 20-140 blocks with the base asset workload plus good-faith boosters (create with distinct manager/freeze/clawback and totals up to 2^64-1, opt-in, transfer, freeze/unfreeze, clawback, close-out to holders or the creator, collect, destroy) and, evaluated first in each block against exactly the reference state, 2-6 correctly signed poison transactions "
              "(transfer out of / into a frozen holding, transfer or close-out to a non-opted-in account, clawback by a non-clawback address, overdraw, destroy while the creator holds less than the total, frozen close-out to a non-creator, creator close-out, clawback with close-to) whose acceptance is a violation; "
              "after every block the 128-bit sum of all holdings of every existing asset must equal its total; non-trivial = >5 transactions committed, >=1 asset with >=2 holders checked and >=1 poison rejected; distinct = distinct event-log digest",
              "deterministic simulation; conservation invariant over the reference fold + must-reject poison transactions built from the reference state",
              "Every existing asset's holdings summed to its total after every explored block and every holder-rule poison was rejected.", "DESIGN.md §4 C22"),
    "C23": _p("one evaluation = one seeded history of 20-140 blocks with the base application workload plus 2-7 boosters per block on 'storage lab' apps (box create/put/delete/resize/splice/replace, create-delete-create and put-delete inside one transaction, global/local put/delete, bytes<->uint type switches, schema-filling loops beyond the declared limits, opt-in/close-out/clear, app deletion with boxes left behind); "
              "after every block, for every application that exists, existed or owns boxes: the app account's TotalBoxes/TotalBoxBytes equal the count and the name+value bytes of its boxes in the reference kv fold, the same enumeration is returned by the real ledger (LookupKvPairsByPrefix with values, LookupKeysByPrefix) at the latest round, "
              "and every global and local state holds no more uint / byte-slice entries than its schema; non-trivial = >5 transactions committed, >=1 app account with boxes and >=1 key/value entry checked; distinct = distinct event-log digest",
              "deterministic simulation; storage-accounting invariant over the reference fold, cross-checked against the ledger's prefix enumeration",
              "Box counters matched the existing boxes and no state exceeded its schema after every explored block.", "DESIGN.md §4 C23"),
}
