"""ledgersim registrations."""

ENGINES = {
    "ledgersim": {"pkg": "./sim/ledgersim",
                  "kind": "real ledger.Ledger (block queue, tracker registry, all trackers, SQLite stores on files, block evaluator, AVM) in a testing/synctest bubble; seeded workload generator, fake-clock flush schedule, crash/reopen from copied DB files, reference fold of StateDeltas"},
}

LEDGER_COMPONENTS = {
    "real": ["ledger.Ledger: blockQueue, trackerRegistry, accountUpdates, acctsOnline, txTail, catchpointTracker, LRU caches, SQLite tracker + block DBs on files",
             "ledger/eval BlockEvaluator + ledger/apply + AVM (data/transactions/logic) for app calls", "data/transactions/verify (real ed25519 signatures)", "crypto (libsodium fork)"],
    "stub": ["agreement (blocks are proposed by the workload generator with empty certificates)", "network, tx handler, catchup", "wall clock (testing/synctest fake clock)"],
}

LEDGER_ASSUME = [
    "SQLite transactions are atomic and durable at commit (LedgerSynchronousMode default); crash granularity = storage transaction; the durable image is a copy of all ledger files at a quiescent instant",
    "the evaluator's per-block StateDelta is taken as the definition of a block's effect when checking the tracker stack (the evaluator itself is the subject of C18-C24)",
    "custom consensus version = current protocol with short look-backs (MaxTxnLife 8, balance lookback 8, rewards refresh 16) so that short histories cross every window boundary",
    "sampling, not enumeration",
]

def _p(rule, technique, text, ref, level="exploration", quick=60, thorough=1200, extra=None):
    return {"engine": "ledgersim", "level": level, "budget": {"quick": quick, "thorough": thorough}, "rule": rule,
            "components": LEDGER_COMPONENTS, "assumptions": LEDGER_ASSUME + (extra or []), "technique": technique,
            "level_text": text, "level_note": "Trusted: SQLite atomic commit; the evaluator's StateDelta; basics.AccountData reward arithmetic helper.", "design_ref": ref}

PROPS = {
    "C08": _p("one evaluation = one seeded history of 20-140 blocks (payments, closes, rekeys, keyregs, full asset and application life cycles, boxes, inner payments) on a real on-disk ledger, with tracker flushes driven by a fake clock, drawn MaxAcctLookback and cache settings, clean reloads and crashes; "
              "after every block sampled lookups (account with/without rewards, asset, application, box/kv, creator) at random rounds of the served window, and exhaustive comparisons after every reopen and at the end; non-trivial = >5 transactions committed and >=1 lookup compared; distinct = distinct event-log digest",
              "deterministic simulation: history x flush schedule x cache config x restart; reference fold of block deltas vs every ledger lookup",
              "Every lookup answered inside the served window equals the fold of exactly the blocks up to that round, whatever has been flushed, cached or reloaded.", "DESIGN.md §4 C08"),
    "C09": _p("one evaluation = one seeded history with crash/reopen from a copy of the ledger files taken at scheduler-chosen instants (and clean reloads); after each reopen: Latest() is a prefix containing every acknowledged round, blocks equal what was added, tracker round <= block round, every lookup equals the fold of exactly that prefix, and the ledger accepts the next block; "
              "non-trivial = >=1 crash image reopened with >5 transactions committed; distinct = distinct event-log digest",
              "deterministic simulation with crash injection (durable image = copy of DB files) and prefix/fold oracle after reopen",
              "After every injected crash the reopened ledger is a consistent prefix containing all confirmed blocks and equals replaying that prefix.", "DESIGN.md §4 C09"),
    "C12": _p("one evaluation = one seeded history as for C08; Totals(r) for sampled served rounds (and exhaustively after reopen / at the end) is compared with sums recomputed from the reference accounts (money incl. pending rewards for online/offline, reward units, rewards level); "
              "non-trivial = >=1 totals comparison with >5 transactions committed; distinct = distinct event-log digest",
              "deterministic simulation; totals vs sums over the reference accounts across flush schedules and restarts",
              "Reported totals equal the sums over all accounts at every served round explored.", "DESIGN.md §4 C12"),
    "C18": _p("one evaluation = one seeded history (fees, rewards level changes with a short refresh interval, proposer payouts, closes, inner payments); after every block the sum of all reference balances incl. pending rewards is compared with the genesis total, and cross-checked against the ledger's own totals; "
              "non-trivial = >5 transactions committed; distinct = distinct event-log digest",
              "deterministic simulation; conservation invariant over folded block deltas, re-checked across flushes and restarts",
              "No explored block created or destroyed micro-algos.", "DESIGN.md §4 C18"),
    "C14": _p("one evaluation = one seeded history of >=45 blocks with catchpoint tracking on (interval 4-8, CatchpointLookback 8) processed by a primary ledger and two replicas; each replica has its own block-feed bursts relative to the fake clock (own flush schedule), own crashes (copy of its files) and clean reloads, "
              "own MaxAcctLookback / LRU setting and own merkle-trie memory configuration (nodes per page 4-512, cached nodes 0-9000); every catchpoint label any of them reports is recorded per round; non-trivial = >=1 label compared between two ledgers; distinct = distinct event-log digest",
              "deterministic simulation: replicas with different flush/restart/crash schedules and trie configurations over one history; differential catchpoint labels",
              "For every catchpoint round reached by two ledgers in every explored run the labels are identical, and no ledger ever changes a label it reported.", "DESIGN.md §4 C14"),
}
