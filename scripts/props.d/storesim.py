"""storesim registrations (C47)."""

ENGINES = {
    "storesim": {"pkg": "./sim/storesim",
                 "kind": "one seeded operation sequence (ledger-shaped tracker commits, batches, ~25 kinds of reads, snapshots, reopen, rolled-back transactions) applied to a real SQLite-backed and a real Pebble-backed trackerdb.Store on files; answers compared op by op and against an in-memory reference model"},
}

STORE_COMPONENTS = {
    "real": ["ledger/store/trackerdb/sqlitedriver on a real SQLite file pair (util/db, WAL), opened with sqlitedriver.Open as ledger.openLedgerDB does, initialised with RunMigrations",
             "ledger/store/trackerdb/pebbledbdriver + generickv on a real Pebble directory, opened with pebbledbdriver.Open (production options) as ledger.openLedgerDB does, initialised with RunMigrations",
             "trackerdb value codecs (BaseAccountData, ResourcesData, BaseOnlineAccountData, TxTailRound, OnlineRoundParamsData, StateProofVerificationContext)"],
    "stub": [],
}

STORE_ASSUME = [
    "the write sequences are the ones ledger/ issues: one tracker commit = one store transaction replicating acctupdates/acctonline/txtail/spverification commitRound and accountsNewRoundImpl/onlineAccountsNewRoundImpl (old values and refs loaded through the store first, refs cached as baseAccounts does); plus write-only Batch scopes with kv/creatable/staging-totals writes. Sequences the ledger cannot issue (update of a missing row, nil refs, duplicate (address, updround), queries for rounds below the online-history horizon, LookupOnlineHistory for an address that never had online rows) are not generated",
    "compared by content, not by value (as the dual driver does): row refs only as nil / non-nil, errors by class (nil, not-found = trackerdb.ErrNotFound or sql.ErrNoRows, other); not compared: PersistedOnlineAccountData.Round of OnlineAccountsAll items (generickv fills it, the SQL query does not select it; documented in generickv, unused by the caller); the error of Close() after Commit()",
    "row-id reuse: when SQLite gives a new account the row id of an account closed in the same commit, accountsNewRoundImpl issues one UpdateResource instead of InsertResource+DeleteResource; transcripts are canonicalised for that (ledger/acctdeltas.go documents it); the resulting rows are compared by the reads",
    "a held snapshot is pinned by a first read right after BeginSnapshot (SQLite's read transaction is deferred to its first query, Pebble's starts at NewSnapshot; every Snapshot() user in ledger/ reads immediately)",
    "implemented by one backend only, hence not compared (generickv returns zero values, 'not supported' or panics 'unimplemented'): LookupLimitedResources (asked on SQLite only, against the reference), AccountsHashRound/UpdateAccountsHashRound, Total{Accounts,Resources,KVs,OnlineAccountRows,OnlineRoundParams}, LookupAccountAddressFromAddressID, LoadAllFullAccounts, AccountsReset/ResetAccountHashes, every catchpoint reader/writer/iterator (MakeCatchpointReader(Writer), MakeKVsIter, MakeOrderedAccountsIter, MakeEncodedAccountsBatchIter, MakeOrderedOnlineAccountsIter, MakeOnlineRoundParamsIter, MakeMerkleCommitter, catchpoint state), StoreSPContextsToCatchpointTbl/GetAllSPContextsFromCatchpointTbl, Vacuum, ResetToV6Test, Testing()",
    "reads inside a write transaction after its own writes are not issued except where the ledger does (OnlineAccountsDelete after the commit's InsertOnlineAccount calls): Pebble transaction scopes read their begin-snapshot, SQLite sees its own writes",
    "storage transactions are atomic; crashes inside SQLite/Pebble commits are not explored (clean close + reopen only); Pebble's background flush/compaction goroutines run freely, no decision or log line depends on them",
    "known findings (open, known_findings.json) are recorded per run and the run continues; each has an exact signature (the deviating answer is itself predicted from the backend's documented behaviour), anything else in the same reader is a violation",
    "sampling, not enumeration: a clean batch is evidence, not proof",
]

PROPS = {
    "C47": {
        "engine": "storesim", "level": "exploration", "budget": {"quick": 40, "thorough": 900},
        "rule": "one evaluation = one seeded run: both stores initialised with the same genesis through RunMigrations, moved to a drawn base round (0, 249, 65530, 2^24-6, 2^32-6: byte boundaries of the big-endian round keys), then 50-140 (thorough 100-420) steps; a step is one tracker commit of 1-3 rounds with up to 4 account/resource/box/creatable/online-account changes plus round params, tx tail, totals, state-proof contexts and the prune calls, or a write-only batch, or one of 25 reads (direct, inside Snapshot(fn), or inside a held snapshot), or snapshot open/close, or close+reopen of both stores; accompanying faults: callback error (rollback), explicit Begin/Commit/Close handle with or without commit, reopen. "
                "non-trivial = at least 3 commits and 8 non-empty reads compared; distinct = distinct canonical event-log digest",
        "components": STORE_COMPONENTS, "assumptions": STORE_ASSUME,
        "technique": "deterministic simulation of operation histories against two real storage backends: differential oracle (op-by-op transcript equality) plus an independent in-memory reference model; faults: rolled-back transactions, reopen from files, reads in a snapshot across later commits",
        "level_text": "Seeded search over ledger-shaped write/read histories on real SQLite and Pebble tracker stores; every answer (values, db rounds, error class, order of listings, pagination cursors/moreData, rows affected) must be equal between the backends and equal to an independent map-based reference for point lookups, prefix listings and cursor pages, resource listings, creators, rounds, totals, online-account lookups/history/top-N/expiry, round params, tx tail and state-proof contexts. Sampling evidence, not proof.",
        "level_note": "Trusted: SQLite and Pebble themselves (atomic commit, snapshot isolation), msgpack codecs, the harness's replication of the ledger's commit logic. Readers generickv does not implement are out of scope (listed in the assumptions). Six open known findings are reported as KNOWN-FINDING.",
        "design_ref": "DESIGN.md §4 C47",
    },
}
