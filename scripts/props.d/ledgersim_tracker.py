"""ledgersim registrations: tracker-facing listings, duplicate detection, online stake (C10, C11, C13)."""

ENGINES = {}

LEDGER_COMPONENTS = {
    "real": ["ledger.Ledger: blockQueue, trackerRegistry, accountUpdates, acctsOnline, txTail, catchpointTracker, LRU caches, SQLite tracker + block DBs on files",
             "ledger/eval BlockEvaluator + ledger/apply + AVM (data/transactions/logic) for app calls", "data/transactions/verify (real ed25519 signatures)", "crypto (libsodium fork)"],
    "stub": ["agreement (blocks are proposed by the workload generator with empty certificates)", "network, tx handler, catchup", "wall clock (testing/synctest fake clock)"],
}

LEDGER_ASSUME = [
    "SQLite transactions are atomic and durable at commit (LedgerSynchronousMode default); crash granularity = storage transaction; the durable image is a copy of all ledger files at a quiescent instant",
    "the evaluator's per-block StateDelta is taken as the definition of a block's effect when checking the tracker stack (the evaluator itself is the subject of C18-C24)",
    "custom consensus version = current protocol with short look-backs (MaxTxnLife 8, balance lookback 8, rewards refresh 16) so that short histories cross every window boundary",
    "sampling, not enumeration",
]

def _p(rule, technique, text, ref, level="exploration", quick=60, thorough=1200, extra=None):
    return {"engine": "ledgersim", "level": level, "budget": {"quick": quick, "thorough": thorough}, "rule": rule,
            "components": LEDGER_COMPONENTS, "assumptions": LEDGER_ASSUME + (extra or []), "technique": technique,
            "level_text": text, "level_note": "Trusted: SQLite atomic commit; the evaluator's StateDelta; basics.AccountData reward arithmetic helper.", "design_ref": ref}

PROPS = {
    "C10": _p("one evaluation = one seeded history of 20-140 blocks biased to asset create/opt-in/close-out/destroy and application create/opt-in/close-out/delete on three focus accounts and box create/delete/rewrite (27 names with shared prefixes) on the two oldest applications, "
              "with fake-clock tracker flushes, drawn MaxAcctLookback, clean reloads and crashes as drawn by the generic configuration; after every block and after every reopen: LookupAssets / LookupApplications (with and without params) pages with limits 1,2,3,5,1000, "
              "random starting ids, driven to exhaustion directly and handler style (limit+1), LookupKvPairsByPrefix at random rounds of the served window with random prefix (app, partial box name), cursor (absent, existing, non-existing, deleted-in-memory), limit 1,2,3,100, byte cap 1,20,100,1MiB, with/without values, driven to exhaustion, and LookupKeysByPrefix; "
              "every page is compared with the reference fold at the round the ledger reports; non-trivial = >5 transactions committed and >=1 multi-page pagination completed while a deletion of the listed kind lived only in the in-memory deltas (the row still in the tracker DB); distinct = distinct event-log digest",
              "deterministic simulation: resource churn history x flush schedule x restart x page limit, byte cap, prefix, cursor; reference fold of block deltas vs every page and the concatenation of pages",
              "Every explored pagination returned each asset, application and box present at the queried round exactly once, in increasing order, with its value at that round, whatever was flushed, held in memory only, or reloaded.", "DESIGN.md §4 C10",
              extra=["LookupAssets/LookupApplications answer for the latest round only; they are queried at quiescent instants (no commit in flight), so the round they report must be the last added block",
                     "the byte cap of LookupKvPairsByPrefix is best effort by contract: a page may stop before a greedy fill; the oracle requires prefix-of-reference, cap/limit respected, non-empty progress and a truthful more flag, not a maximal page"]),
    "C11": _p("one evaluation = one seeded history of 20-140 blocks with overlapping validity windows (FirstValid up to 2 rounds back, lifetime 1..8) and leases, plus per block: the replay fault (identical signed bytes of committed transactions whose window is open, alone, as the complete original group, as a lone group member, next to fresh transactions), "
              "lease conflicts (a different correctly signed transaction of the same sender with an active lease, alone or inside a fresh group), probes right after lease expiry, a Byzantine-proposer block with a replayed / lease-conflicting transaction appended (must fail Validate), "
              "and a CheckDup sweep over every committed transaction and lease of the window after every block and after every crash / clean reload (crash and reload schedules drawn as usual: 2/3 of the runs have each); "
              "non-trivial = >5 transactions committed, >=1 replayed transaction rejected with TransactionInLedgerError and >=1 CheckDup comparison; distinct = distinct event-log digest",
              "deterministic simulation with replay/lease-conflict fault injection and crash/reload; reference txid/lease windows from the block history vs evaluator, Validate and Ledger.CheckDup",
              "No explored run committed a transaction twice inside its validity window or two transactions under one active lease; CheckDup rejected every still-valid committed txid and active lease, also after restarts from the persisted tail.", "DESIGN.md §4 C11",
              extra=["only-if direction: acceptance after expiry is counted as reach, not asserted; submission goes through verify + BlockEvaluator (the tx pool is the subject of C44)"]),
    "C13": _p("one evaluation = one seeded history of 20-140 blocks biased to key registrations (online with 3..42 round key lifetimes, offline, non-participating) and payments over genesis accounts with staggered VoteLastValid, with flushes, reloads and crashes as drawn; "
              "after every block (sampled) and after every reopen (exhaustive): LookupAgreement(r, addr) for all accounts and OnlineCirculation(r, voteRnd) for voteRnd in r..r+8 over r in [latest-16, latest+1] are compared with the online projection / online stake minus expired stake of the reference fold inside the served window "
              "[trackerRound+1-MaxBalLookback, latest]; outside it an error is accepted, a wrong value is not; answers are remembered and must be identical after a restart; "
              "non-trivial = >5 transactions committed, >=1 lookup at a round older than the tracker round (DB / online-accounts cache path) and (expired stake subtracted > 0 or an account left the online set inside the window); distinct = distinct event-log digest",
              "deterministic simulation: online/offline/expiry history x flush schedule x restart; reference fold vs the agreement-facing ledger API for every served round",
              "Every LookupAgreement and OnlineCirculation answer inside the served window equalled what the block history implies at that round, including key expiry, and was the same after restarts.", "DESIGN.md §4 C13",
              extra=["state proofs are off in the simulated protocol, so VotersForStateProof / the voters tracker's extended history are not exercised", "absentee suspension is covered only as far as the evaluator's StateDelta reflects it (the lists themselves are the subject of C27)"]),
}
