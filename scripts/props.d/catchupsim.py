"""catchupsim registrations."""

ENGINES = {
    "catchupsim": {"pkg": "./sim/catchupsim",
                   "kind": "one real catchup.Service in a testing/synctest bubble syncing from simulated ws/http peers into a recording in-memory ledger; every block request, fetch-goroutine start, "
                           "ledger write return, ledger round notification, request timeout/cancellation and clock advance is a park point released by a seeded scheduler, which also picks each peer answer "
                           "(honest / wrong round / tampered payset or header / mismatched or forged certificate / garbage / error / stall), peer churn and concurrent agreement commits"},
}

PROPS = {
    "C30": {
        "engine": "catchupsim", "level": "exploration", "budget": {"quick": 60, "thorough": 1200},
        "rule": "one evaluation = one seeded run: a canonical chain prefix of 20-60 blocks (non-empty paysets on about half of the rounds, valid header commitments) with one canonical certificate object per round; "
                "a real catchup.Service (CatchupParallelBlocks 1-50, validate mode 0 = AddBlock or 12 = Validate+AddValidatedBlock, seed lookback 1-3) syncs a recording ledger that starts at round 0-8 from 1-5 simulated peers "
                "(ws UnicastPeer or HTTPPeer, in any of the four peer classes). Fault phase of 10-400 (thorough 10-1200) scheduler steps: per answered request the tape picks the peer behaviour among the kinds enabled for the run "
                "(each kind on with probability 1/2, rate 0-54%): block+cert of another round, payset entry edited/removed/duplicated/added/swapped (header kept, or commitment recomputed with a forged certificate), header field changed "
                "(canonical or forged certificate), block and certificate of different rounds, certificate with wrong digest / wrong round / changed marker / another round's certificate relabelled / period changed, fabricated block for the round with a self-consistent forged certificate, "
                "garbage (random bytes, truncation, inflated msgpack length prefixes, bit flip, swapped fields, missing topics, wrong content type, lying Content-Length), transport/HTTP/topic errors, spurious 'no block', no answer until the request times out; "
                "responses of the pipelined fetches are released in tape-chosen order, round notifications, fetch-goroutine starts, ledger write returns and request cancellations are delivered in tape-chosen order, the clock advances by tape-chosen amounts, "
                "peers disappear/reappear, the ledger is advanced concurrently by 'agreement' commits, agreement hands unmatched certificates (fetchRound path), the ledger reports catchpoint writing. Then faults stop (GST) and only honest answers are scheduled until the ledger reaches the peers' tip. "
                "non-trivial = the service wrote >= 3 blocks AND (at least one fault fired before a write OR at least one response overtook a pending request for a lower round); distinct = distinct canonical event-log digest; "
                "distinct_states = distinct (ledger round, parked requests with state, parked write calls and fetch starts, pending notifications) digests sampled every 4th step",
        "components": {
            "real": ["catchup.Service (periodicSync, sync, pipelinedFetch, fetchAndWrite, innerFetch, fetchRound/syncCert)",
                     "catchup peer selectors (classBasedPeerSelector, rankPooledPeerSelector, historicStats)",
                     "catchup.universalBlockFetcher: wsFetcherClient + HTTPFetcher + processBlockBytes (parsing and validation of responses)",
                     "rpcs wire encoding (EncodedBlockCert / PreEncodedBlockCert, block topics, HTTP status/content-type/latest-round header handling, ResponseBytes limits)",
                     "bookkeeping.Block.ContentsMatchHeader / PaysetCommit, msgpack codecs of blocks and certificates"],
            "stub": ["network.GossipNode and its peers (simulated ws UnicastPeer and HTTPPeer with an in-process RoundTripper; answers parked and released by the scheduler)",
                     "catchup.Ledger (recording in-memory ledger applying only the next-round rule; per-call round notifications released by the scheduler; no block evaluation)",
                     "catchup.BlockAuthenticator (reference rule: canonical certificate object of the round with matching round and header digest; every call recorded)",
                     "clock (testing/synctest fake time), crypto/rand.Reader (stateless per-step value for peer picks and sleep jitter), agreement (simulator actions)"],
        },
        "assumptions": [
            "the cryptographic check of a certificate (votes, credentials, weight) is replaced by a reference rule on certificate identity; the real check is covered by C03/C04. C30 decides the service's control flow: ordering, pairing of block and certificate, never writing what was not authenticated or whose contents do not match the header",
            "CatchupBlockValidateMode bits 0 and 1 (operator opt-out of certificate / payset-hash verification) are never set; follow mode (EnableFollowMode) is not explored",
            "the simulated ledger accepts any block for the next round (no evaluation), so it never masks a missing check in the catchup service; a write call for a round beyond last+1 is itself reported (observe_at = write calls), a call for an already present round is the documented race with agreement",
            "a block requested through an unmatched certificate from agreement (fetchRound) must be the canonical block and be stored with exactly that certificate; no authenticator call is required there because agreement already verified the certificate",
            "liveness bound (1500 scheduler steps and 200 simulated seconds after faults stop) was validated on the unchanged tree over > 60 000 runs: observed maxima are below 400 steps / 60 s. "
            "After GST answers are honest, peers are present, agreement/churn/catchpoint actions stop, time advances in 2 s quanta only when nothing else is enabled, and a launched fetch goroutine starts at once (lowest round first); "
            "the order of answers, notifications, cancellations and write returns stays tape-chosen. Without prompt starts the bound does not hold: see docs/sensitivity-catchupsim.md (observation on near-tip catch-up)",
            "sampling, not enumeration: a clean batch is evidence, not proof",
        ],
        "technique": "deterministic simulation with a Byzantine/tampering peer set and arbitrary completion order against the real catchup service; safety oracle at the recording ledger on every write call "
                     "(round = last+1, byte-identical to the canonical block, (block, certificate) pair previously accepted by the recording authenticator), bounded-liveness oracle after faults stop",
        "level_text": "Seeded search over peer misbehaviour per request, response/notification/cancellation orderings, clock advances, peer churn and concurrent agreement commits against the real catchup service; "
                      "every ledger write call made by the service is judged (in order, canonical bytes, authenticated pair), and after faults stop the ledger must reach the tip within a validated bound. Sampling evidence, not proof.",
        "level_note": "Trusted: the simulator's seams (ledger, network, authenticator reference rule, clock), SHA-512/256 for 'equal digest => equal header'. The authenticator, like the real one, covers the header only, "
                      "so a tampered payset under a canonical header is stopped by ContentsMatchHeader alone - which is what the content oracle observes.",
        "design_ref": "DESIGN.md §4 C30",
    },
}


# C29 ("commitments bind contents") is decided by ledgersim on the evaluation/validation path; its SECOND engine is
# catchupsim: blocks arriving through catchup, where only Service.fetchAndWrite's ContentsMatchHeader call ties a
# downloaded payset to the certified header (seeded change C29-a lives there). scripts/props.py attaches this.
SECOND = {"C29": dict(PROPS["C30"], engine="catchupsim", share=0.5)}
