"""walletsim registrations."""

ENGINES = {
    "walletsim": {"pkg": "./sim/walletsim",
                  "kind": "operation-sequence simulation of the real kmd SQLiteWalletDriver/SQLiteWallet on real SQLite wallet files: two client handles (two driver objects) on one wallet file, "
                          "tape-chosen ops with wrong-password and crash(file copy)+reopen faults, an independent reference wallet model with its own HMAC/ed25519 key derivation as the oracle"},
}

PROPS = {
    "C46": {
        "engine": "walletsim", "level": "exploration", "budget": {"quick": 40, "thorough": 900},
        "rule": "one evaluation = one seeded run: CreateWallet (password blank/short/long-binary; MDK derived from the tape or drawn by the driver), then 16-56 (thorough 30-160) tape-chosen operations from two handles "
                "(two driver objects) on the same wallet file: Init, GenerateKey, ImportKey of fresh keys / of keys the derivation sequence will produce 1-4 generations later / of present keys / of deleted keys, "
                "DeleteKey, ExportKey, ExportMasterDerivationKey, ListKeys, RenameWallet, handle refetch, mid-run restore; faults per step: wrong password (5 variants) on the password-taking call, or crash = copy of the wallet files "
                "and reopen through fresh drivers; optionally really concurrent commutative pairs (generate||generate, generate||import, generate||delete, generate||list, import||import of one key) from two goroutines; "
                "every run ends with a wallet restored from the exported MDK regenerating the whole sequence and a second restored wallet replaying the history. "
                "non-trivial = the run generated >=2 keys, completed both restore checks AND at least one of: wrong-password fault, crash+reopen, concurrent pair, generation that skipped an imported key, import of a present key fired; "
                "distinct = distinct canonical event-log digest (addresses are logged by canonical name d<i>/f<j>, never by bytes)",
        "components": {
            "real": ["daemon/kmd/wallet/driver SQLiteWalletDriver and SQLiteWallet (CreateWallet, FetchWallet, RenameWallet, Init, CheckPassword, GenerateKey, ImportKey, DeleteKey, ExportKey, ExportMasterDerivationKey, ListKeys, Metadata)",
                     "real SQLite wallet database files (mattn/go-sqlite3, _txlock=exclusive) in a scratch directory",
                     "scrypt/secretbox/HKDF blob encryption with the smallest scrypt cost the driver config admits (allow_unsafe_scrypt, N=2 r=1 p=1)",
                     "crypto (libsodium fork ed25519 key generation) as used by the driver"],
            "stub": ["none of the code under test; the only simulated part is the client scheduler (which handle issues which call, chosen by the tape) - the kmd HTTP/session layer above the driver is not run"],
        },
        "assumptions": [
            "crash granularity is the operation boundary: every driver call opens and closes its own SQLite connection, so the wallet file copied between two calls is the complete durable state; crashes inside SQLite's own commit are not explored",
            "calls from the two handles are issued sequentially in a tape-chosen interleaving; the driver has no goroutines of its own. The optional concurrent pairs run on two real goroutines whose order is decided by SQLite file locking, not by the simulator: "
            "only pairs whose outcome is order-independent are used and only order-independent facts are logged/asserted",
            "reference model: key i of an MDK = ed25519 key of seed HMAC-SHA-512/256(MDK, 'AlgorandDeterministicKey-<i>' || 0x01) (first HKDF-Expand block), first index 1, computed with Go's standard library, not with the driver's helper; the Go ed25519 implementation is trusted",
            "handles are initialised with the right password before key-material operations, as kmd's session layer does; RenameWallet's password check and the error value of importing an already present key are recorded but not asserted (the property does not state them)",
            "known finding C46/password-trailing-nul (scrypt's PBKDF2-HMAC zero-pads the password, so P and P||NUL.. open the same wallet) is reported as KNOWN-FINDING and the run continues",
            "sampling, not enumeration: a clean batch is evidence, not proof",
        ],
        "technique": "deterministic simulation of client operation histories over the real SQLite wallet driver with wrong-password and crash+reopen fault injection; reference-model oracle after every operation, full-state (list, every exported key, MDK, name, next generations on a reopened copy) before/after every wrong-password call, restore-from-MDK oracle at the end of every run",
        "level_text": "Seeded search over operation histories (generate/import/delete/export/rename/list/init from two handles, right and wrong passwords, crash+reopen, restore) against the real SQLite wallet driver; "
                      "after every operation the wallet's key list equals an independent reference model without duplicates, generated addresses equal the independently derived sequence skipping exactly the imported keys, "
                      "wrong passwords are rejected with the full observable state unchanged, and wallets restored from the exported master derivation key regenerate the sequence. Sampling evidence, not proof.",
        "level_note": "Trusted: Go standard library HMAC/SHA-512/ed25519 used by the reference derivation, SQLite atomic commit, file copy as the crash image. Not covered: the kmd HTTP/session layer, multisig and signing calls, crashes inside a SQLite transaction.",
        "design_ref": "DESIGN.md §4 C46",
    },
}
