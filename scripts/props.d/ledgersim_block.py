"""ledgersim registrations: block-level oracles (authorisation, commitments, fees/payouts, upgrades,
expiry/suspension lists). Observers live in sim/ledgersim/obs_{auth,commit,fees,upgrade,absent}.go."""

ENGINES = {}

LEDGER_COMPONENTS = {
    "real": ["ledger.Ledger: blockQueue, trackerRegistry, accountUpdates, acctsOnline, txTail, catchpointTracker, LRU caches, SQLite tracker + block DBs on files",
             "ledger/eval BlockEvaluator + ledger/apply + AVM (data/transactions/logic) for app calls", "data/transactions/verify (real ed25519 signatures)", "crypto (libsodium fork)"],
    "stub": ["agreement (blocks are proposed by the workload generator with empty certificates)", "network, tx handler, catchup", "wall clock (testing/synctest fake clock)"],
}

LEDGER_ASSUME = [
    "SQLite transactions are atomic and durable at commit (LedgerSynchronousMode default); crash granularity = storage transaction; the durable image is a copy of all ledger files at a quiescent instant",
    "the evaluator's per-block StateDelta is taken as the definition of a block's effect when checking the tracker stack (the evaluator itself is the subject of C18-C24)",
    "custom consensus version = current protocol with short look-backs (MaxTxnLife 8, balance lookback 8, rewards refresh 16) so that short histories cross every window boundary",
    "sampling, not enumeration",
]

BLOCK_ASSUME = [
    "a Byzantine proposer / corrupting transport is modelled by offering tampered variants of the honestly generated block to Ledger.Validate on the same ledger (at the previous round) before the honest block is added; agreement and the network are not in the loop",
    "reference account state = fold of the evaluator's StateDeltas (AuthAddr, voting data, IncentiveEligible, balances); consensus parameters (percentages, wait-round ranges, thresholds) are read from config.Consensus as inputs of the reference rules",
]


def _p(rule, technique, text, ref, level="exploration", quick=60, thorough=1200, extra=None, note=None):
    return {"engine": "ledgersim", "level": level, "budget": {"quick": quick, "thorough": thorough}, "rule": rule,
            "components": LEDGER_COMPONENTS, "assumptions": LEDGER_ASSUME + BLOCK_ASSUME + (extra or []), "technique": technique,
            "level_text": text,
            "level_note": note or "Trusted: SQLite atomic commit; the evaluator's StateDelta for account state; ed25519/sha512 primitives used by the reference checks.",
            "design_ref": ref}


PROPS = {
    "C24": _p("one evaluation = one seeded history of 20-140 blocks on a real on-disk ledger (base workload + pooled-fee groups, an inner-payment app call, incentive keyregs) in which the proposer upgrades to a consensus version with a very large bonus so that the fee sink is drained to its minimum balance mid-run; "
              "per block: fee-shortfall groups (total fee 1..k micro-algos below members x MinTxnFee, one more for an inner transaction) must be rejected, exactly-funded pooled groups (one member pays 0) are counted; tampered variants of every generated block "
              "(payout above percent x FeesCollected + Bonus, payout above the fee sink's spendable balance, payout to a missing/closed proposer, FeesCollected +-1, Bonus +-1) must be rejected by Ledger.Validate; every committed block's payout is compared with the reference bound recomputed from the header and the reference fee-sink balance; "
              "non-trivial = >=1 fee-shortfall group judged AND >=1 payout variant judged AND >=1 committed block with FeesCollected>0 and a non-zero payout; distinct = distinct event-log digest",
              "deterministic simulation with poison transaction groups and a Byzantine-proposer tamper fault on generated blocks; reference payout bound",
              "No explored group with insufficient pooled fees was accepted; no explored block claiming more than min(percent x fees + bonus, fee-sink balance - min balance), or a payout for a missing proposer, or wrong FeesCollected/Bonus, validated; no honest block exceeded the reference bound (both regimes of the bound reached).",
              "DESIGN.md §4 C24"),
    "C26": _p("one evaluation = one seeded history of 20-140 blocks in which the proposer of every block draws its upgrade vote (propose one of two extra registered versions with a drawn delay / approve / nothing; per-proposal approval rate drawn so that proposals both pass and fail) under UpgradeVoteRounds=5, UpgradeThreshold=3, wait rounds [0..5] resp. [2..6]; ledger crashes/reloads in between; "
              "every committed header's UpgradeState is compared with a reference state machine written from the header comments, protocol changes are checked against the announced switch round and an independent approval count, tampered headers (second proposal, early/late/foreign switch, approvals +-1, delay outside the range, NextProtocol without proposal, approval without proposal / after the deadline, failed proposal kept) must be rejected by Ledger.Validate; 16-member groups (legal under every version but v2, whose MaxTxGroupSize is 15) are submitted and must be refused exactly while v2 is in force; "
              "non-trivial = >=1 proposal reached its vote deadline (passed or failed) AND >=1 tampered header judged; distinct = distinct event-log digest",
              "deterministic simulation over sequences of per-block upgrade votes; reference upgrade state machine; Byzantine-proposer header tampering",
              "In every explored vote sequence the protocol changed only at the announced switch round of a proposal with >= threshold approvals inside its vote window, at most one proposal was pending, every committed header matched the reference machine and every explored rule-breaking header was rejected.",
              "DESIGN.md §4 C26"),
    "C27": _p("one evaluation = one seeded history of 20-140 blocks with staggered key expiries, short-lived keyregs and (in half of the runs) one account holding almost all online stake that registers with or without the incentive fee and then stays silent; "
              "tampered variants of every generated block (expired list: online account whose VoteLastValid >= round incl. == round, account without vote key, duplicate entry; absent list: offline account, online but not incentive-eligible account that is otherwise absent, eligible account seen within 20 rounds, duplicate) must be rejected by Ledger.Validate; "
              "every entry of every honest block's lists is checked against the reference rule (expired <=> vote key present and VoteLastValid < round; absent => online, non-zero balance, incentive-eligible and lastSeen + 20 x onlineStake/stake < round, or a failed challenge); "
              "non-trivial = >=1 unjustified-entry variant judged AND >=1 honest non-empty expired or absent list checked; distinct = distinct event-log digest",
              "deterministic simulation with a Byzantine-proposer tamper fault on the participation-update lists; reference expiry/absence rules over the reference state",
              "No explored block listing an unjustified expired or absent account validated; every entry of every honestly generated list satisfied the reference rule.",
              "DESIGN.md §4 C27"),
    "C28": _p("one evaluation = one seeded history of 20-140 blocks with rekeys (to plain keys, a 2-of-3 multisig and a logic-sig address), funded multisig / logic-sig accounts and delegated logic sigs; per block 3-8 poison candidates ride the history: signed by the previous authorizer, by the sender's own key while rekeyed, AuthAddr naming a non-authorizer, two authorisations at once, multisig below threshold / with one bad subsignature / for another address, rejecting logic sig, approving logic sig for another address, delegated logic sig by the wrong key, "
              "any field (amount, receiver, fee, note, validity, sender, close-to, rekey-to) or byte of the signed transaction or bit of the signature changed after signing; all pushed through verify.TxnGroup -> TestTransactionGroup -> TransactionGroup; "
              "oracle: reference authorizer from the reference state plus the block's accepted rekeys/closes; an accepted poison whose premise holds is a violation; every transaction of every committed block must carry exactly one authorisation that an independent checker (Go ed25519, recomputed multisig / program addresses) accepts for the reference authorizer; "
              "non-trivial = >=6 distinct poison kinds judged AND >=1 committed transaction authorised by a non-sender authorizer; distinct = distinct event-log digest",
              "deterministic simulation with forged/tampered transaction faults riding a rekey history; reference authorizer map; independent authorisation checker on committed blocks",
              "No explored transaction lacking exactly one valid authorisation by the sender's current authorizer was accepted, and every committed transaction passed the independent authorisation check.",
              "DESIGN.md §4 C28"),
    "C29": _p("one evaluation = one seeded history of 20-140 blocks; per block a well-formed 2-4 member group and 2-4 variants of it whose group id no longer commits to the submitted members (member dropped / added / reordered / altered, id recomputed for one member or over a subset, one member without id; all members correctly re-signed) are offered to the evaluator directly and through the submission pipeline; "
              "tampered variants of every generated block (payset entries swapped / removed / duplicated / edited incl. ApplyData without updating TxnCommitments, the same with all but one commitment recomputed, Branch / Branch512 bit flips or grandparent hash, Round +-1, TxnCounter +-1, single commitment bit flips) must have ContentsMatchHeader()==false where the payset was touched and must be rejected by Ledger.Validate; "
              "non-trivial = >=1 group variant judged AND >=1 payset variant AND >=1 header variant judged; distinct = distinct event-log digest",
              "deterministic simulation with poison groups and a corrupting-transport / Byzantine-proposer tamper fault on generated blocks; second pass (catchupsim): the real catchup service fed by tampering peers, every ledger write judged against the canonical block",
              "No explored group with a non-matching group id was accepted by the evaluator; no explored block whose payset differs from its commitments or whose header does not link to the previous block validated.",
              "DESIGN.md §4 C29"),
}
