"""triesim registrations."""

ENGINES = {
    "triesim": {"pkg": "./sim/triesim",
                "kind": "seeded operation sequences (add/delete/roothash/commit/evict/reload/transaction-commit/crash) against the real crypto/merkletrie Trie and paged cache "
                        "over a simulated transactional Committer (durable + open-transaction layer, injectable store/load errors and lost writes); single goroutine, no bubble"},
}

PROPS = {
    "C17": {
        "engine": "triesim", "level": "exploration", "budget": {"quick": 40, "thorough": 900},
        "rule": "one evaluation = one seeded operation sequence (quick 50-300 ops, thorough 300-3000) of Add/Delete/RootHash/Commit/Evict(commit|nocommit)/Reload/transaction-commit with crash and storage faults, "
                "over a drawn key universe (6-10 short keys of length 1-6 over a 2-12 symbol alphabet incl. 0x00/0xff, or a pool of 8-2048 32-byte / catchpoint-shaped 37-byte keys with shared prefixes) "
                "and a drawn MemoryConfig (NodesCountPerPage 2-512, CachedNodesCount 0-9000, PageFillFactor 0-1, MaxChildrenPagesThreshold 0-64, optionally re-drawn at every reload); "
                "fault kinds (each on with probability 1/2 per run): crash, StorePage error (all / k-th / root page only), LoadPage error (all / k-th), silently lost k-th page write followed by a crash; "
                "non-trivial = at least one commit/evict/reload happened inside the sequence AND a root-hash check passed on a non-empty set; distinct = distinct canonical event-log digest; "
                "distinct_states = distinct (reference root of the set, memory config) pairs sampled at root checks (at most 6 per run, reporting capped at 20000 per worker)",
        "components": {
            "real": ["crypto/merkletrie Trie (Add/Delete/RootHash/Commit/Evict/SetCommitter, root page serialisation)",
                     "crypto/merkletrie node add/remove/collapse/hash and page encode/decode",
                     "crypto/merkletrie paged cache (transactions, commit, fan-out and packing reallocation, LRU eviction, deferred page load)"],
            "stub": ["merkletrie.Committer: simulated transactional page store (durable layer + open-transaction overlay; rollback on crash/error, as the SQLite/KV MerkleCommitter inside a tracker DB transaction behaves)"],
        },
        "assumptions": [
            "the page store is transactional: all StorePage calls since the last transaction commit become durable atomically or not at all (as the trackerdb MerkleCommitter inside a DB transaction); torn or partially durable trie commits are not explored",
            "after a crash or ANY storage error the caller rolls the transaction back and re-makes the Trie from the store (what catchpointtracker does); continued use of a Trie object after a failed mutation is not asserted, "
            "except RootHash of an unmodified trie after a failed page load (which the tracker does keep using)",
            "the reference root hash is an independent re-implementation of the documented node hash over the sorted key set (stdlib SHA-512/256); SHA-512/256 collision resistance is trusted for 'equal root => equal set'",
            "callers never mutate a key slice after handing it to Add (the trie keeps the slice)",
            "sampling, not enumeration: a clean batch is evidence, not proof",
        ],
        "technique": "deterministic simulation of operation/fault sequences against the real trie; oracles: independent reference root hash after every root check, Go-map membership for Add/Delete results, "
                     "durable-set equality after crash+reload, no error/panic without an injected fault",
        "level_text": "Seeded search over add/delete/commit/evict/reload/crash interleavings, key shapes and page configurations against the real merkletrie; the root hash is compared with an independently written "
                      "reference over the element set at every root check and after every reload, Add/Delete results with a Go map, and the reloaded trie with the set as of the last transaction commit. Sampling evidence, not proof.",
        "level_note": "Trusted: SHA-512/256, the simulated committer's transactional semantics (crash granularity = storage transaction). Fault steps always end in rollback + reload because whether an injected "
                      "page-load error is hit depends on the trie's map-order-dependent page layout. Known finding on the unchanged tree: C17/evict-drops-partial-tail-page (findings/C17-evict-tail-page; small CachedNodesCount only); "
                      "half of the runs step around its precondition (not logged, map-order dependent) to keep full sensitivity, the other half exposes it; violations are attributed to it only after a commit ran in the hazardous state "
                      "(read-only hook hooks/crypto/merkletrie/verif_export.go).",
        "design_ref": "DESIGN.md §4 C17",
    },
}
