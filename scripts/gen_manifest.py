#!/usr/bin/env python3
"""Generates /verif/MANIFEST.json from scripts/props.py and scripts/not_applicable.json."""
import json, os, sys
V = os.path.dirname(os.path.dirname(os.path.abspath(__file__)))
sys.path.insert(0, os.path.join(V, "scripts"))
from props import PROPS, ENGINES
na = json.load(open(os.path.join(V, "scripts/not_applicable.json")))
ids = [json.loads(l)["id"] for l in open(os.path.join(V, "properties.jsonl"))]
hooks = json.load(open(os.path.join(V, "scripts/hooks.json")))
checks = []
for pid in ids:
    if pid not in PROPS:
        continue
    p = PROPS[pid]
    checks.append({
        "property_id": pid,
        "quick_cmd": "./check %s --tier quick" % pid,
        "thorough_cmd": "./check %s --tier thorough" % pid,
        "evidence_file": "/verif/evidence/%s.json" % pid,
        "replay_cmd_template": "./check %s --replay {path}" % pid,
        "engine": p["engine"],
        "level_claimed": {"category": p["level"], "text": p["level_text"], "design_ref": p["design_ref"]},
        "level_note": p["level_note"],
        "technique": p["technique"],
    })
nalist = []
for pid in ids:
    if pid in PROPS:
        continue
    if pid not in na:
        raise SystemExit("property %s neither claimed nor listed in not_applicable.json" % pid)
    nalist.append({"property_id": pid, "reason": na[pid]})
m = {
    "version": 1,
    "setup_cmd": "./scripts/setup.sh",
    "hooks": hooks,
    "engines": [{"name": n, "path": "/verif/" + e["pkg"][2:], "serves_properties": [i for i in ids if i in PROPS and PROPS[i]["engine"] == n], "kind_free_text": e["kind"]} for n, e in ENGINES.items()],
    "checks": checks,
    "not_applicable": nalist,
    "notes": "Technique family: deterministic simulation with fault injection. See DESIGN.md. exit 2 from a check = build/harness trouble, never a verdict.",
}
json.dump(m, open(os.path.join(V, "MANIFEST.json"), "w"), indent=1)
print("MANIFEST.json: %d checks, %d not_applicable" % (len(checks), len(nalist)))
