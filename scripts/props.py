"""Registry of claimed properties. Each engine registers itself in scripts/props.d/<engine>.py, which
defines ENGINES (name -> {pkg, kind}) and PROPS (id -> entry; see props.d/agreesim.py for the shape).
MANIFEST.json is generated from the merged registry by scripts/gen_manifest.py."""
import glob, os, runpy

ENGINES = {}
PROPS = {}
_SECOND = {}
for _f in sorted(glob.glob(os.path.join(os.path.dirname(os.path.abspath(__file__)), "props.d", "*.py"))):
    _ns = runpy.run_path(_f)
    ENGINES.update(_ns.get("ENGINES", {}))
    for _k, _v in _ns.get("PROPS", {}).items():
        if _k in PROPS:
            raise SystemExit("property %s registered twice (%s)" % (_k, _f))
        PROPS[_k] = _v
    _SECOND.update(_ns.get("SECOND", {}))
for _k, _v in _SECOND.items():
    PROPS[_k]["second"] = _v  # ./check <id> runs this engine as a second pass (see check: --engine)
